import Utcp.Lemmas.RecvOrder
import Utcp.Lemmas.GroupInv
/-!
# The sender's channel sequence counters

`c.outRelOf ch`: the last reliable sequence number assigned on channel `ch` (the initial value while the channel does not exist yet).
`OSame c c'`: these counters are the same in `c'` as in `c`.  Everything except an accepted reliable send keeps them: flushing,
retransmission, release on ACK, and the whole receive path (which may *create* channels — with the initial value).
-/
namespace Utcp
open Gen

def Conn.outRelOf (c : Conn) (ch : Nat) : Int :=
  match c.getChan ch with
  | some x => x.outReliable
  | none => c.initOutReliable

structure OSame (c c' : Conn) : Prop where
  out : ∀ ch, c'.outRelOf ch = c.outRelOf ch
  init : c'.initOutReliable = c.initOutReliable
  /-- (carried along: the initial value of the receive counters is never touched either) -/
  initIn : c'.initInReliable = c.initInReliable

theorem OSame.refl (c : Conn) : OSame c c := ⟨fun _ => rfl, rfl, rfl⟩
theorem OSame.trans {a b c : Conn} (h1 : OSame a b) (h2 : OSame b c) : OSame a c :=
  ⟨fun ch => (h2.out ch).trans (h1.out ch), h2.init.trans h1.init, h2.initIn.trans h1.initIn⟩

theorem OSame.of_chans {c c' : Conn} (hc : c'.chans = c.chans) (hi : c'.initOutReliable = c.initOutReliable)
    (hi2 : c'.initInReliable = c.initInReliable := by rfl) : OSame c c' :=
  ⟨fun ch => by unfold Conn.outRelOf Conn.getChan; rw [hc, hi], hi, hi2⟩

theorem setChan_osame (c : Conn) (ch : Nat) (x x' : Channel) (h : c.getChan ch = some x) (ho : x'.outReliable = x.outReliable) :
    OSame c (c.setChan ch x') := by
  refine ⟨?_, rfl, rfl⟩
  intro ch'
  unfold Conn.outRelOf
  by_cases he : ch' = ch
  · subst he; rw [getChan_setChan_self, h]; exact ho
  · rw [getChan_setChan_other _ _ _ _ he]; rfl

theorem emit_osame (c : Conn) (ev : Event) : OSame c (c.emit ev) := OSame.of_chans rfl rfl

theorem markClose_osame (c : Conn) (r : Nat) : OSame c (c.markClose r) :=
  OSame.of_chans (markClose_chans c r) (by unfold Conn.markClose; split <;> rfl) (by unfold Conn.markClose; split <;> rfl)

theorem freeNodes_init (c : Conn) (k : Nat) : (c.freeNodes k).initOutReliable = c.initOutReliable ∧ (c.freeNodes k).initInReliable = c.initInReliable := by
  unfold Conn.freeNodes
  have : ∀ (l : List Nat) (c : Conn), (l.foldl (fun c _ => c.emit (.free .node)) c).initOutReliable = c.initOutReliable ∧
      (l.foldl (fun c _ => c.emit (.free .node)) c).initInReliable = c.initInReliable := by
    intro l
    induction l with
    | nil => intro c; exact ⟨rfl, rfl⟩
    | cons a rest ih => intro c; exact ⟨(ih _).1.trans rfl, (ih _).2.trans rfl⟩
  exact this _ _

theorem freeNodes_osame (c : Conn) (k : Nat) : OSame c (c.freeNodes k) := OSame.of_chans (freeNodes_chans' c k) (freeNodes_init c k).1 (freeNodes_init c k).2

theorem noteClose_osame (c : Conn) (b : Bunch) : OSame c (c.noteClose b) := by
  unfold Conn.noteClose
  split
  · exact OSame.refl _
  · dsimp only
    have hc : OSame c (if (b.chIndex == 0) = true then c.markClose crControlChannelClose else c) := by
      split
      · exact markClose_osame _ _
      · exact OSame.refl _
    generalize (if (b.chIndex == 0) = true then c.markClose crControlChannelClose else c) = c' at *
    split
    · exact hc
    · rename_i x hx
      exact (hc.trans (setChan_osame c' _ x (x.markClosed b.closeReason) hx (markClosed_outReliable _ _))).trans (OSame.of_chans rfl rfl)

theorem foldl_noteClose_osame (g : List Bunch) : ∀ c : Conn, OSame c (g.foldl Conn.noteClose c) := by
  induction g with
  | nil => intro c; exact OSame.refl _
  | cons b rest ih => intro c; exact (noteClose_osame c b).trans (ih _)

theorem mergePartial_osame (c : Conn) (x : Channel) (b : Bunch) : OSame c (mergePartial c x b).1 := by
  unfold mergePartial mergeInitial mergeNext
  split
  · split
    · exact OSame.refl _
    · split
      · exact OSame.refl _
      · exact freeNodes_osame _ _
  · split
    · exact OSame.refl _
    · split
      · exact OSame.refl _
      · split
        · exact OSame.refl _
        · exact freeNodes_osame _ _

theorem mergePartial_out (c : Conn) (x : Channel) (b : Bunch) : (mergePartial c x b).2.1.outReliable = x.outReliable := by
  unfold mergePartial mergeInitial mergeNext
  split
  · split
    · rfl
    · split <;> rfl
  · split
    · rfl
    · split
      · rfl
      · split <;> rfl

/-- a channel that exists keeps existing with the same counter -/
theorem OSame.chan {c c' : Conn} (_h : OSame c c') {ch : Nat} {x : Channel} (hx : c.getChan ch = some x) (hc : c'.chans = c.chans) :
    c'.getChan ch = some x := by
  unfold Conn.getChan at hx ⊢; rw [hc]; exact hx

theorem receivedNextBunch_osame (c : Conn) (b : Bunch) : OSame c (c.receivedNextBunch b).1 := by
  unfold Conn.receivedNextBunch
  split
  · exact emit_osame _ _
  · rename_i x hx
    dsimp only
    have hx0 : (if b.bReliable = true then { x with inReliable := b.chSeq } else x).outReliable = x.outReliable := by split <;> rfl
    split
    · have hm := mergePartial_osame c (if b.bReliable = true then { x with inReliable := b.chSeq } else x) b
      have hmc := mergePartial_chans c (if b.bReliable = true then { x with inReliable := b.chSeq } else x) b
      have hmo := mergePartial_out c (if b.bReliable = true then { x with inReliable := b.chSeq } else x) b
      generalize hmp : mergePartial c (if b.bReliable = true then { x with inReliable := b.chSeq } else x) b = r at hm hmc hmo
      obtain ⟨c1, x1, res, skip⟩ := r
      simp only at hm hmc hmo ⊢
      have hx1 : c1.getChan b.chIndex = some x := by unfold Conn.getChan at hx ⊢; rw [hmc]; exact hx
      have h1 : OSame c (c1.setChan b.chIndex x1) := hm.trans (setChan_osame _ _ x x1 hx1 (hmo.trans hx0))
      cases res with
      | succeed => exact h1
      | fatal => exact h1.trans (emit_osame _ _)
      | failed => exact h1.trans (emit_osame _ _)
      | available =>
        simp only
        split
        · have hg : ((c1.setChan b.chIndex x1).freeNodes x1.inPartial.length).getChan b.chIndex = some x1 := by
            unfold Conn.getChan; rw [freeNodes_chans']; exact getChan_setChan_self _ _ _
          exact ((h1.trans (freeNodes_osame _ x1.inPartial.length)).trans (setChan_osame _ _ x1 { x1 with inPartial := [] } hg rfl)).trans (markClose_osame _ _)
        · have h2 := (h1.trans (foldl_noteClose_osame x1.inPartial _)).trans (emit_osame _ (.recv x1.inPartial))
          have h3 := h2.trans (freeNodes_osame _ x1.inPartial.length)
          split
          · exact h3
          · rename_i x4 hx4
            exact h3.trans (setChan_osame _ _ x4 _ hx4 rfl)
    · refine (((setChan_osame c _ x _ hx hx0).trans (noteClose_osame _ _)).trans (emit_osame _ _)).trans (emit_osame _ _)

theorem dispatchWaiting_osame (fuel : Nat) : ∀ (c : Conn) (ch : Nat), OSame c (Conn.dispatchWaiting fuel c ch) := by
  induction fuel with
  | zero => intro c ch; exact OSame.refl _
  | succ f ih =>
    intro c ch
    unfold Conn.dispatchWaiting
    split
    · exact OSame.refl _
    · rename_i x hx
      split
      · exact OSame.refl _
      · rename_i b rest hq
        split
        · exact OSame.refl _
        · dsimp only
          exact ((setChan_osame c ch x { x with inRec := rest } hx rfl).trans (receivedNextBunch_osame _ b)).trans (ih _ _)

theorem createChan_osame (c : Conn) (ch : Nat) (hn : c.getChan ch = none) : OSame c (c.createChan ch) := by
  unfold Conn.createChan
  dsimp only
  have key : ∀ c1 : Conn, c1.chans = c.chans → c1.initOutReliable = c.initOutReliable → c1.initInReliable = c.initInReliable →
      OSame c (c1.setChan ch { inReliable := c1.initInReliable, outReliable := c1.initOutReliable }) := by
    intro c1 h1 h2 h3
    refine ⟨?_, h2, h3⟩
    intro ch'
    unfold Conn.outRelOf
    by_cases he : ch' = ch
    · subst he; rw [getChan_setChan_self, hn]; exact h2
    · rw [getChan_setChan_other _ _ _ _ he]
      have : c1.getChan ch' = c.getChan ch' := by unfold Conn.getChan; rw [h1]
      rw [this]
      show (match c.getChan ch' with | some x => x.outReliable | none => c1.initOutReliable) = _
      rw [h2]
  split
  · exact key _ rfl rfl rfl
  · split
    · exact key _ rfl rfl rfl
    · exact key _ rfl rfl rfl

theorem getOrCreateChan_osame (c : Conn) (b : Bunch) (inc : Bool) : OSame c (c.getOrCreateChan b inc).1 := by
  unfold Conn.getOrCreateChan
  split
  · exact OSame.refl _
  · rename_i hn
    split
    · exact createChan_osame c _ hn
    · exact OSame.refl _

theorem processBunch_osame (c : Conn) (x : Channel) (b : Bunch) (hx : c.getChan b.chIndex = some x) : OSame c (c.processBunch x b).1 := by
  unfold Conn.processBunch
  split
  · exact emit_osame _ _
  · split
    · split
      · exact emit_osame _ _
      · split
        · exact setChan_osame _ _ x _ hx rfl
        · exact emit_osame _ _
    · exact receivedNextBunch_osame _ _

theorem getOrCreateChan_get (c : Conn) (b : Bunch) (inc : Bool) :
    ∀ x, (c.getOrCreateChan b inc).2 = some x → (c.getOrCreateChan b inc).1.getChan b.chIndex = some x := by
  unfold Conn.getOrCreateChan
  split
  · rename_i x hx
    exact fun y hy => by simp at hy; rw [← hy]; exact hx
  · split
    · exact fun y hy => hy
    · exact fun y hy => by simp at hy

theorem receivedRawBunch_osame (c : Conn) (bits : Bits) : OSame c (c.receivedRawBunch bits).1 := by
  unfold Conn.receivedRawBunch
  dsimp only
  have h0 : OSame c (c.emit (.alloc .node)) := emit_osame _ _
  split
  · exact (h0.trans (markClose_osame _ _)).trans (emit_osame _ _)
  · rename_i b rest hd
    split
    · exact (h0.trans (markClose_osame _ _)).trans (emit_osame _ _)
    · have hg := getOrCreateChan_osame (c.emit (.alloc .node)) { b with packetId := (c.emit (.alloc .node)).inPacketId } true
      have g2 := getOrCreateChan_get (c.emit (.alloc .node)) { b with packetId := (c.emit (.alloc .node)).inPacketId } true
      split
      · exact (h0.trans hg).trans (emit_osame _ _)
      · rename_i x hx
        have hget := g2 x hx
        exact ((h0.trans hg).trans (processBunch_osame _ x _ (by rw [absSeq_chIndex]; exact hget))).trans (dispatchWaiting_osame _ _ _)

theorem bunchLoop_osame (fuel : Nat) : ∀ (c : Conn) (bits : Bits) (skip : Bool), OSame c (Conn.bunchLoop fuel c bits skip).1 := by
  induction fuel with
  | zero => intro c bits skip; exact OSame.refl _
  | succ f ih =>
    intro c bits skip
    unfold Conn.bunchLoop
    split
    · exact OSame.refl _
    · exact (receivedRawBunch_osame c bits).trans (ih _ _ _)

/-! ### the sending machinery -/

theorem flush_osame (e : Env) (c : Conn) : OSame c (c.flush e) := OSame.of_chans (flush_chans e c) (flush_keeps e c).initOut (flush_keeps e c).initIn

theorem writeBits_osame (e : Env) (c : Conn) (bits : Bits) : OSame c (c.writeBits e bits).1 :=
  OSame.of_chans (writeBits_chans e c bits) (writeBits_keeps e c bits).initOut (writeBits_keeps e c bits).initIn

theorem resendNodes_osame (e : Env) (ch : Nat) (nodes : List OutNode) : ∀ c : Conn, OSame c (c.resendNodes e ch nodes) := by
  induction nodes with
  | nil => intro c; exact OSame.refl _
  | cons n rest ih =>
    intro c
    unfold Conn.resendNodes
    dsimp only
    refine (writeBits_osame e c n.bits).trans (OSame.trans ?_ (ih _))
    split
    · exact OSame.refl _
    · rename_i x hx
      exact setChan_osame _ ch x _ hx rfl

theorem onNakChans_osame (e : Env) (pid : Int) (chs : List Nat) : ∀ c : Conn, OSame c (c.onNakChans e pid chs) := by
  induction chs with
  | nil => intro c; exact OSame.refl _
  | cons ch rest ih =>
    intro c
    unfold Conn.onNakChans
    split
    · exact ih c
    · rename_i x hx
      dsimp only
      exact ((setChan_osame c ch x { x with outRec := (removeOutgoing pid x.outRec).2 } hx rfl).trans (resendNodes_osame e ch _ _)).trans (ih _)

theorem foldl_emit_osame {α} (ev : Event) (l : List α) : ∀ c : Conn, OSame c (l.foldl (fun c _ => c.emit ev) c) := by
  induction l with
  | nil => intro c; exact OSame.refl _
  | cons _ rest ih => intro c; exact (emit_osame c ev).trans (ih _)

theorem onAckChans_osame (pid : Int) (chs : List Nat) : ∀ c : Conn, OSame c (c.onAckChans pid chs) := by
  induction chs with
  | nil => intro c; exact OSame.refl _
  | cons ch rest ih =>
    intro c
    unfold Conn.onAckChans
    split
    · exact ih c
    · rename_i x hx
      dsimp only
      exact ((setChan_osame c ch x { x with outRec := (removeOutgoing pid x.outRec).2 } hx rfl).trans (foldl_emit_osame _ _ _)).trans (ih _)

theorem handleNotification_osame (e : Env) (c : Conn) (v : Int × Bool) : OSame c (c.handleNotification e v) := by
  unfold Conn.handleNotification
  dsimp only
  split
  · exact OSame.of_chans rfl rfl
  · split
    · exact ((OSame.of_chans rfl rfl : OSame c { c with lastNotified := c.lastNotified + 1, outAckPacketId := c.lastNotified + 1 }).trans (onAckChans_osame _ _ _)).trans (emit_osame _ _)
    · exact ((OSame.of_chans rfl rfl : OSame c { c with lastNotified := c.lastNotified + 1 }).trans (onNakChans_osame e _ _ _)).trans (emit_osame _ _)

theorem notifyUpdate_osame (e : Env) (c : Conn) (h : NotifHeader) : OSame c (c.notifyUpdate e h) := by
  have hfold : ∀ (vs : List (Int × Bool)) (c : Conn), OSame c (vs.foldl (Conn.handleNotification e) c) := by
    intro vs
    induction vs with
    | nil => intro c; exact OSame.refl _
    | cons v rest ih => intro c; exact (handleNotification_osame e c v).trans (ih _)
  unfold Conn.notifyUpdate
  dsimp only
  split
  · exact (((OSame.of_chans rfl rfl : OSame c { c with notify := c.notify.updateInAckSeqAck (seq_num_diff h.ackedSeq c.notify.outAckSeq).toNat h.ackedSeq }).trans (hfold _ _)).trans
      (OSame.of_chans rfl rfl)).trans (OSame.of_chans rfl rfl)
  · exact OSame.of_chans rfl rfl

/-- **`ReceivedPacket` on any bit string never moves a send counter** -/
theorem receivedPacket_osame (e : Env) (c : Conn) (bits : Bits) : OSame c (c.receivedPacket e bits).1 := by
  unfold Conn.receivedPacket
  split
  · exact markClose_osame _ _
  · rename_i hd rest hdec
    dsimp only
    split
    · exact OSame.refl _
    · have h0 : OSame c ({ c with inPacketId := c.inPacketId + c.notify.deltaSeq hd } : Conn) := OSame.of_chans rfl rfl
      have h1 := h0.trans (notifyUpdate_osame e _ hd)
      generalize ({ c with inPacketId := c.inPacketId + c.notify.deltaSeq hd } : Conn).notifyUpdate e hd = c2 at h1 ⊢
      have h2 := bunchLoop_osame (rest.length + 1) c2 rest false
      generalize Conn.bunchLoop (rest.length + 1) c2 rest false = r at h2 ⊢
      obtain ⟨c3, rest', skip⟩ := r
      simp only at h2 ⊢
      exact (h1.trans h2).trans (OSame.of_chans rfl rfl)

/-! ### `utcp_send_bunch`: the one place where a counter moves -/

/-- the channel sequence number the next accepted send of `b` gets -/
def Conn.nextSeq (c : Conn) (b : Bunch) : Int := if b.bReliable then c.outRelOf b.chIndex + 1 else 0

/-- `b` as the sender numbers it -/
def Conn.tagged (c : Conn) (b : Bunch) : Bunch := { b with chSeq := c.nextSeq b }

theorem outRelOf_of_get {c : Conn} {ch : Nat} {x : Channel} (h : c.getChan ch = some x) : c.outRelOf ch = x.outReliable := by
  unfold Conn.outRelOf; rw [h]

theorem sendCheck_chan (c : Conn) (b : Bunch) (h0 : Bits) (h : c.sendCheck b = .inr h0) : (c.getChan b.chIndex).isSome ∨ b.bOpen = true := by
  unfold Conn.sendCheck at h
  split at h
  · simp at h
  · split at h
    · simp at h
    · rename_i hx
      cases hg : c.getChan b.chIndex with
      | some x => left; rfl
      | none =>
        right
        simp only [hg, Option.isNone_none, Bool.true_and, Bool.not_eq_true', Bool.not_eq_false] at hx
        cases hb : b.bOpen <;> simp_all

/-- the channel `sendCommit` works on exists and still carries the counter it had before (or the initial value) -/
theorem sendCommit_chan (c : Conn) (b : Bunch) (h0 : Bits) (h : c.sendCheck b = .inr h0) :
    OSame c ((c.getOrCreateChan b false).1.noteClose b) ∧
    ∃ x, ((c.getOrCreateChan b false).1.noteClose b).getChan b.chIndex = some x ∧ x.outReliable = c.outRelOf b.chIndex := by
  have hs : OSame c ((c.getOrCreateChan b false).1.noteClose b) := (getOrCreateChan_osame c b false).trans (noteClose_osame _ b)
  refine ⟨hs, ?_⟩
  have hex : (c.getChan b.chIndex).isSome ∨ b.bOpen = true ∨ (false = true ∧ b.bReliable = true) := by
    rcases sendCheck_chan c b h0 h with h1 | h1
    · exact Or.inl h1
    · exact Or.inr (Or.inl h1)
  obtain ⟨x0, _, hx0⟩ := getOrCreateChan_some c b false hex
  have hsome := noteClose_getChan_isSome (c.getOrCreateChan b false).1 b b.chIndex (by rw [hx0]; rfl)
  cases hg : ((c.getOrCreateChan b false).1.noteClose b).getChan b.chIndex with
  | none => rw [hg] at hsome; simp at hsome
  | some x => exact ⟨x, rfl, by rw [← hs.out b.chIndex, outRelOf_of_get hg]⟩

theorem prepareWrite_osame (e : Env) (c : Conn) (n : Nat) : OSame c (c.prepareWrite e n) :=
  OSame.of_chans (prepareWrite_chans e c n) (prepareWrite_keeps e c n).initOut (prepareWrite_keeps e c n).initIn

theorem writeInternal_osame (e : Env) (c : Conn) (bits : Bits) : OSame c (c.writeInternal e bits).1 :=
  OSame.of_chans (writeInternal_chans e c bits) (writeInternal_keeps e c bits).initOut (writeInternal_keeps e c bits).initIn

theorem addOutRec_osame (c : Conn) (ch : Nat) (pid : Int) (bits : Bits) : OSame c (c.addOutRec ch pid bits) := by
  unfold Conn.addOutRec
  split
  · exact OSame.refl _
  · rename_i x hx
    exact setChan_osame c ch x _ hx rfl

/-- **an accepted send** moves exactly the counter of its channel, by one, and only if the bunch is reliable -/
theorem sendCommit_out (e : Env) (c : Conn) (b : Bunch) (h0 : Bits) (h : c.sendCheck b = .inr h0) :
    (c.sendCommit e b h0).1.initOutReliable = c.initOutReliable ∧
    (∀ ch, ch ≠ b.chIndex → (c.sendCommit e b h0).1.outRelOf ch = c.outRelOf ch) ∧
    (c.sendCommit e b h0).1.outRelOf b.chIndex = (if b.bReliable then c.nextSeq b else c.outRelOf b.chIndex) := by
  obtain ⟨hs, x, hx, hxo⟩ := sendCommit_chan c b h0 h
  unfold Conn.sendCommit
  simp only [hx]
  generalize (c.getOrCreateChan b false).1.noteClose b = c1 at hs hx ⊢
  by_cases hr : b.bReliable = true
  · simp only [if_pos hr]
    -- the counter is set, everything after keeps it
    have h2 : ∀ ch, (c1.setChan b.chIndex { x with outReliable := x.outReliable + 1 }).outRelOf ch = if ch = b.chIndex then x.outReliable + 1 else c1.outRelOf ch := by
      intro ch
      unfold Conn.outRelOf
      by_cases he : ch = b.chIndex
      · subst he; simp
      · rw [getChan_setChan_other _ _ _ _ he]; simp only [he, if_false]; rfl
    have hrest : ∀ (c2 : Conn) (n : Nat) (bits : Bits) (pid : Int),
        OSame c2 ((((c2.prepareWrite e n).writeInternal e bits).1.emit (.alloc .node)).addOutRec b.chIndex pid bits) := fun c2 n bits pid =>
      (((prepareWrite_osame e _ _).trans (writeInternal_osame e _ _)).trans (emit_osame _ _)).trans (addOutRec_osame _ _ _ _)
    have hr1 := hrest (c1.setChan b.chIndex { x with outReliable := x.outReliable + 1 })
      (((encodeBunchHeader { b with chSeq := x.outReliable + 1 }).getD h0).length + b.data.length)
      ((encodeBunchHeader { b with chSeq := x.outReliable + 1 }).getD h0 ++ b.data)
      ((c1.setChan b.chIndex { x with outReliable := x.outReliable + 1 }).prepareWrite e
              (((encodeBunchHeader { b with chSeq := x.outReliable + 1 }).getD h0).length + b.data.length)).outPacketId
    refine ⟨by rw [hr1.init]; exact hs.init, ?_, ?_⟩
    · intro ch hne
      rw [hr1.out ch, h2 ch]; simp only [hne, if_false]; exact hs.out ch
    · rw [hr1.out b.chIndex, h2 b.chIndex]
      simp only [if_true, Conn.nextSeq, if_pos hr, hxo]
  · have hr' : b.bReliable = false := by simpa using hr
    have hrn : ¬ (b.bReliable = true) := hr
    simp only [if_neg hrn]
    have hrest : OSame c1 ((c1.prepareWrite e (h0.length + b.data.length)).writeInternal e (h0 ++ b.data)).1 :=
      (prepareWrite_osame e _ _).trans (writeInternal_osame e _ _)
    exact ⟨hrest.init.trans hs.init, fun ch _ => (hrest.out ch).trans (hs.out ch), (hrest.out _).trans (hs.out _)⟩

end Utcp
