import Utcp.Lemmas.Keeps
import Utcp.Lemmas.RecvKeeps
import Utcp.Lemmas.RecvOrder
/-!
# Allocation balance

`balK k log` = (number of `alloc k` events) − (number of `free k` events) in the log.  `BInvK c d`: the channel table is sorted
by index without duplicates; the balance of bunch nodes equals the number of nodes held in the channels' three lists plus `d`
(`d = 1` while a freshly parsed bunch is in flight through the receive path, `0` between API calls); the balance of channel
blocks equals the number of channels; the open-channel array is allocated iff its capacity is non-zero.
One lemma per function of the library: it maps `BInvK c d` to `BInvK c' d'` with the `d'` the function's contract states.
-/
namespace Utcp
open Gen

def balK (k : Kind) : List Event → Int
  | [] => 0
  | .alloc k' :: r => (if k' = k then 1 else 0) + balK k r
  | .free k' :: r => (if k' = k then -1 else 0) + balK k r
  | _ :: r => balK k r

def nodesOf (x : Channel) : Int := (x.inRec.length : Int) + x.outRec.length + x.inPartial.length

def held (l : List (Nat × Channel)) : Int := (l.map (fun p => nodesOf p.2)).sum

def KeysSorted (l : List (Nat × Channel)) : Prop := l.Pairwise (fun a b => a.1 < b.1)

theorem balK_append (k : Kind) (a b : List Event) : balK k (a ++ b) = balK k a + balK k b := by
  induction a with
  | nil => simp [balK]
  | cons ev rest ih => cases ev <;> simp [balK, ih] <;> omega

/-! ### the channel table -/

theorem find_none_of_lt (ch : Nat) (l : List (Nat × Channel)) (h : ∀ p ∈ l, ch < p.1) : l.find? (·.1 == ch) = none := by
  rw [List.find?_eq_none]
  intro p hp
  have := h p hp
  simp; omega

theorem insertSorted_keys (ch : Nat) (x : Channel) (l : List (Nat × Channel)) : ∀ p ∈ insertSorted ch x l, p.1 = ch ∨ ∃ q ∈ l, q.1 = p.1 := by
  induction l with
  | nil => intro p hp; simp [insertSorted] at hp; left; rw [hp]
  | cons kv rest ih =>
    obtain ⟨k, v⟩ := kv
    intro p hp
    simp only [insertSorted] at hp
    split at hp
    · rcases List.mem_cons.mp hp with rfl | hp
      · left; rfl
      · right; exact ⟨p, hp, rfl⟩
    · split at hp
      · rename_i heq
        rcases List.mem_cons.mp hp with rfl | hp
        · left; simp at heq; exact heq.symm
        · right; exact ⟨p, List.mem_cons_of_mem _ hp, rfl⟩
      · rcases List.mem_cons.mp hp with rfl | hp
        · right; exact ⟨(k, v), List.mem_cons_self, rfl⟩
        · rcases ih p hp with h | ⟨q, hq, hqe⟩
          · left; exact h
          · right; exact ⟨q, List.mem_cons_of_mem _ hq, hqe⟩

theorem insertSorted_sorted (ch : Nat) (x : Channel) (l : List (Nat × Channel)) (h : KeysSorted l) : KeysSorted (insertSorted ch x l) := by
  induction l with
  | nil => simp [insertSorted, KeysSorted]
  | cons kv rest ih =>
    obtain ⟨k, v⟩ := kv
    unfold KeysSorted at h ⊢
    rw [List.pairwise_cons] at h
    simp only [insertSorted]
    split
    · rename_i hlt
      rw [List.pairwise_cons]
      refine ⟨?_, List.pairwise_cons.mpr h⟩
      intro p hp
      rcases List.mem_cons.mp hp with rfl | hp
      · exact hlt
      · have := h.1 p hp; simp only at this ⊢; omega
    · split
      · rw [List.pairwise_cons]; exact ⟨h.1, h.2⟩
      · rename_i hnlt hne
        rw [List.pairwise_cons]
        refine ⟨?_, ih h.2⟩
        intro p hp
        rcases insertSorted_keys ch x rest p hp with h1 | ⟨q, hq, hqe⟩
        · simp only; rw [h1]
          have : ¬ (ch == k) = true := hne
          simp at this; omega
        · have := h.1 q hq; simp only at this ⊢; omega

theorem held_cons (p : Nat × Channel) (l : List (Nat × Channel)) : held (p :: l) = nodesOf p.2 + held l := by
  simp [held]

theorem held_insert_replace (ch : Nat) (x x' : Channel) (l : List (Nat × Channel)) (hs : KeysSorted l)
    (hf : (l.find? (·.1 == ch)).map (·.2) = some x) :
    held (insertSorted ch x' l) = held l - nodesOf x + nodesOf x' ∧ (insertSorted ch x' l).length = l.length := by
  induction l with
  | nil => simp at hf
  | cons kv rest ih =>
    obtain ⟨k, v⟩ := kv
    unfold KeysSorted at hs
    rw [List.pairwise_cons] at hs
    simp only [insertSorted]
    split
    · rename_i hlt
      -- `ch` is smaller than every key: it cannot have been found
      have : ((k, v) :: rest).find? (·.1 == ch) = none := by
        apply find_none_of_lt
        intro p hp
        rcases List.mem_cons.mp hp with rfl | hp
        · exact hlt
        · have := hs.1 p hp; simp only at this; omega
      rw [this] at hf; simp at hf
    · split
      · rename_i heq
        have hk : (k == ch) = true := by simp at heq ⊢; exact heq.symm
        simp only [List.find?_cons, hk, Option.map_some, Option.some.injEq] at hf
        subst hf
        simp only [held_cons, List.length_cons]
        exact ⟨by omega, trivial⟩
      · rename_i hnlt hne
        have hk : (k == ch) = false := by
          have : ¬ (ch == k) = true := hne
          simp at this ⊢; omega
        simp only [List.find?_cons, hk] at hf
        obtain ⟨i1, i2⟩ := ih hs.2 hf
        simp only [held_cons, List.length_cons, i1, i2]
        exact ⟨by omega, trivial⟩

theorem held_insert_new (ch : Nat) (x' : Channel) (l : List (Nat × Channel)) (hf : (l.find? (·.1 == ch)).map (·.2) = none) :
    held (insertSorted ch x' l) = held l + nodesOf x' ∧ (insertSorted ch x' l).length = l.length + 1 := by
  induction l with
  | nil => simp [insertSorted, held]
  | cons kv rest ih =>
    obtain ⟨k, v⟩ := kv
    simp only [insertSorted]
    split
    · simp only [held_cons, List.length_cons]; exact ⟨by omega, trivial⟩
    · split
      · rename_i heq
        have hk : (k == ch) = true := by simp at heq ⊢; exact heq.symm
        simp [List.find?_cons, hk] at hf
      · rename_i hnlt hne
        have hk : (k == ch) = false := by
          have : ¬ (ch == k) = true := hne
          simp at this ⊢; omega
        simp only [List.find?_cons, hk] at hf
        obtain ⟨i1, i2⟩ := ih hf
        simp only [held_cons, List.length_cons, i1, i2]
        exact ⟨by omega, trivial⟩

/-! ### the invariant -/

structure BInvK (c : Conn) (d : Int) : Prop where
  sorted : KeysSorted c.chans
  node : balK .node c.log = held c.chans + d
  chan : balK .chan c.log = c.chans.length
  open_ : balK .open_ c.log = if c.openCap > 0 then 1 else 0

theorem BInvK.of_eq {c c' : Conn} {d : Int} (h : BInvK c d) (h1 : c'.chans = c.chans) (h2 : c'.log = c.log) (h3 : c'.openCap = c.openCap) : BInvK c' d :=
  ⟨by rw [h1]; exact h.sorted, by rw [h1, h2]; exact h.node, by rw [h1, h2]; exact h.chan, by rw [h2, h3]; exact h.open_⟩

theorem BInvK.cast {c : Conn} {d d' : Int} (h : BInvK c d) (hd : d = d') : BInvK c d' := hd ▸ h

theorem emit_alloc_node (c : Conn) (d : Int) (h : BInvK c d) : BInvK (c.emit (.alloc .node)) (d + 1) :=
  ⟨h.sorted, by show (if Kind.node = Kind.node then 1 else 0) + balK .node c.log = _; rw [h.node]; simp; omega,
   by show (if Kind.node = Kind.chan then (1 : Int) else 0) + balK .chan c.log = _; rw [h.chan]; simp,
   by show (if Kind.node = Kind.open_ then (1 : Int) else 0) + balK .open_ c.log = _; rw [h.open_]; simp; rfl⟩

theorem emit_free_node (c : Conn) (d : Int) (h : BInvK c d) : BInvK (c.emit (.free .node)) (d - 1) :=
  ⟨h.sorted, by show (if Kind.node = Kind.node then -1 else 0) + balK .node c.log = _; rw [h.node]; simp; omega,
   by show (if Kind.node = Kind.chan then (-1 : Int) else 0) + balK .chan c.log = _; rw [h.chan]; simp,
   by show (if Kind.node = Kind.open_ then (-1 : Int) else 0) + balK .open_ c.log = _; rw [h.open_]; simp; rfl⟩

/-- events that are neither allocations nor releases -/
def Neutral (ev : Event) : Prop := (∀ k, ev ≠ .alloc k) ∧ (∀ k, ev ≠ .free k)

theorem balK_neutral (k : Kind) (ev : Event) (r : List Event) (h : Neutral ev) : balK k (ev :: r) = balK k r := by
  cases ev with
  | alloc k' => exact absurd rfl (h.1 k')
  | free k' => exact absurd rfl (h.2 k')
  | _ => rfl

theorem emit_neutral (c : Conn) (d : Int) (ev : Event) (hn : Neutral ev) (h : BInvK c d) : BInvK (c.emit ev) d :=
  ⟨h.sorted, by show balK .node (ev :: c.log) = _; rw [balK_neutral _ _ _ hn]; exact h.node,
   by show balK .chan (ev :: c.log) = _; rw [balK_neutral _ _ _ hn]; exact h.chan,
   by show balK .open_ (ev :: c.log) = _; rw [balK_neutral _ _ _ hn]; exact h.open_⟩

theorem adds_neutral {P : Event → Prop} {c c' : Conn} {d : Int} (h : BInvK c d) (ha : Adds P c c') (hp : ∀ ev, P ev → Neutral ev)
    (h1 : c'.chans = c.chans) (h3 : c'.openCap = c.openCap) : BInvK c' d := by
  obtain ⟨new, hlog, hnew⟩ := ha
  have hz : ∀ k, balK k new = 0 := by
    intro k
    clear hlog
    induction new with
    | nil => rfl
    | cons ev rest ih =>
      rw [balK_neutral k ev rest (hp ev (hnew ev List.mem_cons_self))]
      exact ih (fun e he => hnew e (List.mem_cons_of_mem _ he))
  refine ⟨by rw [h1]; exact h.sorted, ?_, ?_, ?_⟩
  · rw [hlog, balK_append, hz, h1]; simp; exact h.node
  · rw [hlog, balK_append, hz, h1]; simp; exact h.chan
  · rw [hlog, balK_append, hz, h3]; simp; exact h.open_

theorem isOut_neutral (ev : Event) (h : isOut ev) : Neutral ev := by
  cases ev <;> simp_all [isOut, Neutral]

theorem freeNodes_bal (c : Conn) (k : Nat) (d : Int) (h : BInvK c d) : BInvK (c.freeNodes k) (d - k) := by
  unfold Conn.freeNodes
  have : ∀ (l : List Nat) (c : Conn) (d : Int), BInvK c d → BInvK (l.foldl (fun c _ => c.emit (.free .node)) c) (d - l.length) := by
    intro l
    induction l with
    | nil => intro c d h; simpa using h
    | cons a rest ih =>
      intro c d h
      have := ih _ _ (emit_free_node c d h)
      simp only [List.foldl_cons, List.length_cons]
      exact this.cast (by push_cast; omega)
  have := this (List.range k) c d h
  simpa using this

theorem markClose_bal (c : Conn) (r : Nat) (d : Int) (h : BInvK c d) : BInvK (c.markClose r) d :=
  h.of_eq (markClose_chans c r) (markClose_log c r) (by unfold Conn.markClose; split <;> rfl)

theorem setChan_replace_bal (c : Conn) (ch : Nat) (x x' : Channel) (d : Int) (h : BInvK c d) (hx : c.getChan ch = some x) :
    BInvK (c.setChan ch x') (d + nodesOf x - nodesOf x') := by
  obtain ⟨h1, h2⟩ := held_insert_replace ch x x' c.chans h.sorted hx
  refine ⟨insertSorted_sorted ch x' c.chans h.sorted, ?_, ?_, h.open_⟩
  · show balK .node c.log = held (insertSorted ch x' c.chans) + _
    rw [h1, h.node]; omega
  · show balK .chan c.log = ((insertSorted ch x' c.chans).length : Int)
    rw [h2]; exact h.chan

/-- replacing a channel by one that holds the same number of nodes -/
theorem setChan_same_bal (c : Conn) (ch : Nat) (x x' : Channel) (d : Int) (h : BInvK c d) (hx : c.getChan ch = some x) (hn : nodesOf x' = nodesOf x) :
    BInvK (c.setChan ch x') d := (setChan_replace_bal c ch x x' d h hx).cast (by omega)

theorem freeNodes_chansB (c : Conn) (k : Nat) : (c.freeNodes k).chans = c.chans := by
  unfold Conn.freeNodes
  have : ∀ (l : List Nat) (c : Conn), (l.foldl (fun c _ => c.emit (.free .node)) c).chans = c.chans := by
    intro l
    induction l with
    | nil => intro c; rfl
    | cons a rest ih => intro c; exact ih _
  exact this _ _

/-! ### the receive path -/

theorem markClosed_nodes (x : Channel) (r : Nat) : nodesOf (x.markClosed r) = nodesOf x := by
  unfold Channel.markClosed; split <;> rfl

theorem noteClose_bal (c : Conn) (b : Bunch) (d : Int) (h : BInvK c d) : BInvK (c.noteClose b) d := by
  unfold Conn.noteClose
  split
  · exact h
  · dsimp only
    have hc : BInvK (if (b.chIndex == 0) = true then c.markClose crControlChannelClose else c) d := by
      split
      · exact markClose_bal _ _ _ h
      · exact h
    generalize (if (b.chIndex == 0) = true then c.markClose crControlChannelClose else c) = c' at *
    split
    · exact hc
    · rename_i x hx
      exact (setChan_same_bal c' _ x _ d hc hx (markClosed_nodes _ _)).of_eq rfl rfl rfl

theorem foldl_noteClose_bal (g : List Bunch) : ∀ (c : Conn) (d : Int), BInvK c d → BInvK (g.foldl Conn.noteClose c) d := by
  induction g with
  | nil => intro c d h; exact h
  | cons b rest ih => intro c d h; exact ih _ _ (noteClose_bal c b d h)

/-- a fragment that `merge_partial_data` keeps is stored in the list; `freed` nodes of a discarded group are released -/
theorem mergePartial_bal (c : Conn) (x1 : Channel) (b : Bunch) (d : Int) (h : BInvK c d) :
    ∃ freed : Nat, BInvK (mergePartial c x1 b).1 (d - freed) ∧ (mergePartial c x1 b).1.chans = c.chans ∧
      nodesOf (mergePartial c x1 b).2.1 = nodesOf x1 - freed +
        (if (mergePartial c x1 b).2.2.1 = .succeed ∨ (mergePartial c x1 b).2.2.1 = .available then 1 else 0) := by
  unfold mergePartial mergeInitial mergeNext
  split
  · split
    · rename_i hl
      have hnil : x1.inPartial = [] := by simpa using hl
      refine ⟨0, by simpa using h, rfl, ?_⟩
      simp [nodesOf, hnil]
    · split
      · refine ⟨0, by simpa using h, rfl, ?_⟩
        split <;> simp
      · refine ⟨x1.inPartial.length, freeNodes_bal c _ d h, freeNodes_chansB c _, ?_⟩
        simp [nodesOf]
  · split
    · refine ⟨0, by simpa using h, rfl, by simp⟩
    · split
      · refine ⟨0, by simpa using h, rfl, ?_⟩
        split <;> simp [nodesOf] <;> omega
      · split
        · refine ⟨0, by simpa using h, rfl, ?_⟩
          split <;> simp
        · refine ⟨x1.inPartial.length, freeNodes_bal c _ d h, freeNodes_chansB c _, ?_⟩
          simp [nodesOf]

theorem getChan_of_chans {c c' : Conn} (hc : c'.chans = c.chans) (ch : Nat) : c'.getChan ch = c.getChan ch := by
  unfold Conn.getChan; rw [hc]

/-- `ReceivedNextBunch`: the node of the bunch is live on entry and accounted for on exit (stored or released) -/
theorem receivedNextBunch_bal (c : Conn) (b : Bunch) (h : BInvK c 1) : BInvK (c.receivedNextBunch b).1 0 := by
  unfold Conn.receivedNextBunch
  split
  · exact (emit_free_node c 1 h).cast (by omega)
  · rename_i x0 hx0
    dsimp only
    have hn1 : nodesOf (if b.bReliable = true then { x0 with inReliable := b.chSeq } else x0) = nodesOf x0 := by split <;> rfl
    generalize (if b.bReliable = true then { x0 with inReliable := b.chSeq } else x0) = x1 at hn1 ⊢
    split
    · obtain ⟨freed, hb, hch, hnodes⟩ := mergePartial_bal c x1 b 1 h
      generalize mergePartial c x1 b = r at hb hch hnodes ⊢
      obtain ⟨c1, x2, res, skip⟩ := r
      simp only at hb hch hnodes ⊢
      have hget : c1.getChan b.chIndex = some x0 := by rw [getChan_of_chans hch]; exact hx0
      have h2 := setChan_replace_bal c1 b.chIndex x0 x2 _ hb hget
      cases res with
      | succeed => simp at hnodes; exact h2.cast (by omega)
      | fatal => simp at hnodes; exact (emit_free_node _ _ h2).cast (by omega)
      | failed => simp at hnodes; exact (emit_free_node _ _ h2).cast (by omega)
      | available =>
        simp at hnodes
        have h2' : BInvK (c1.setChan b.chIndex x2) 0 := h2.cast (by omega)
        simp only
        split
        · have h3 := freeNodes_bal _ x2.inPartial.length 0 h2'
          have hg3 : ((c1.setChan b.chIndex x2).freeNodes x2.inPartial.length).getChan b.chIndex = some x2 := by
            rw [getChan_of_chans (freeNodes_chansB _ _), getChan_setChan_self]
          have h4 := setChan_replace_bal _ b.chIndex x2 { x2 with inPartial := [] } _ h3 hg3
          exact markClose_bal _ _ _ (h4.cast (by simp [nodesOf]; omega))
        · have hrs := foldl_noteClose_rsame x2.inPartial (c1.setChan b.chIndex x2)
          have h3 := foldl_noteClose_bal x2.inPartial _ 0 h2'
          have h4 : BInvK ((x2.inPartial.foldl Conn.noteClose (c1.setChan b.chIndex x2)).emit (.recv x2.inPartial)) 0 :=
            emit_neutral _ _ _ ⟨fun k hk => (by cases hk), fun k hk => (by cases hk)⟩ h3
          have h5 := freeNodes_bal _ x2.inPartial.length 0 h4
          have hcr : (((x2.inPartial.foldl Conn.noteClose (c1.setChan b.chIndex x2)).emit (.recv x2.inPartial)).freeNodes x2.inPartial.length).getChan b.chIndex
              = (x2.inPartial.foldl Conn.noteClose (c1.setChan b.chIndex x2)).getChan b.chIndex := getChan_of_chans (freeNodes_chansB _ _) _
          split
          · rename_i hnone
            rw [hcr] at hnone
            have := hrs.chan b.chIndex
            rw [hnone, getChan_setChan_self] at this; simp at this
          · rename_i x5 hx5
            rw [hcr] at hx5
            have hp := hrs.chan b.chIndex
            rw [hx5, getChan_setChan_self] at hp
            simp only [Option.map_some, Option.some.injEq] at hp
            have hlen : x5.inPartial = x2.inPartial := congrArg (·.1) hp
            have h6 := setChan_replace_bal _ b.chIndex x5 { x5 with inPartial := [] } _ h5 (by rw [hcr]; exact hx5)
            exact h6.cast (by simp [nodesOf, hlen]; omega)
    · have h1 := setChan_same_bal c b.chIndex x0 x1 1 h hx0 hn1
      have h2 := noteClose_bal _ b 1 h1
      have h3 : BInvK (((c.setChan b.chIndex x1).noteClose b).emit (.recv [b])) 1 := emit_neutral _ _ _ ⟨fun k hk => (by cases hk), fun k hk => (by cases hk)⟩ h2
      exact (emit_free_node _ _ h3).cast (by omega)

theorem dispatchWaiting_bal (fuel : Nat) : ∀ (c : Conn) (ch : Nat), BInvK c 0 → BInvK (Conn.dispatchWaiting fuel c ch) 0 := by
  induction fuel with
  | zero => intro c ch h; exact h
  | succ f ih =>
    intro c ch h
    unfold Conn.dispatchWaiting
    split
    · exact h
    · rename_i x hx
      split
      · exact h
      · rename_i b rest hq
        split
        · exact h
        · dsimp only
          have h1 := setChan_replace_bal c ch x { x with inRec := rest } 0 h hx
          exact ih _ _ (receivedNextBunch_bal _ b (h1.cast (by simp [nodesOf, hq]; omega)))

theorem enqueue_length (b : Bunch) : ∀ (q q' : List Bunch), enqueueIncoming b q = some q' → q'.length = q.length + 1 := by
  intro q
  induction q with
  | nil => intro q' h; simp [enqueueIncoming] at h; subst h; rfl
  | cons a rest ih =>
    intro q' h
    unfold enqueueIncoming at h
    split at h
    · simp at h
    · split at h
      · simp at h; subst h; rfl
      · cases he : enqueueIncoming b rest with
        | none => simp [he] at h
        | some q'' => simp [he] at h; subst h; simp [ih q'' he]

theorem processBunch_bal (c : Conn) (x : Channel) (b : Bunch) (h : BInvK c 1) (hx : c.getChan b.chIndex = some x) : BInvK (c.processBunch x b).1 0 := by
  unfold Conn.processBunch
  split
  · exact (emit_free_node c 1 h).cast (by omega)
  · split
    · split
      · exact (emit_free_node c 1 h).cast (by omega)
      · split
        · rename_i q hq
          have := setChan_replace_bal c b.chIndex x { x with inRec := q } 1 h hx
          exact this.cast (by simp [nodesOf, enqueue_length b x.inRec q hq]; omega)
        · exact (emit_free_node c 1 h).cast (by omega)
    · exact receivedNextBunch_bal c b h

theorem createChan_bal (c : Conn) (ch : Nat) (d : Int) (h : BInvK c d) (hn : c.getChan ch = none) : BInvK (c.createChan ch) d := by
  unfold Conn.createChan
  dsimp only
  have hnew := fun x' => held_insert_new ch x' c.chans hn
  have hs := fun x' => insertSorted_sorted ch x' c.chans h.sorted
  have hnode := h.node
  have hchan := h.chan
  have hopen := h.open_
  have hz : ∀ a b : Int, nodesOf ({ inReliable := a, outReliable := b } : Channel) = 0 := fun _ _ => rfl
  split
  · rename_i hlt
    have hcap : 0 < c.openCap := by
      have : (c.emit (.alloc .chan)).chans.length < (c.emit (.alloc .chan)).openCap := hlt
      simp only [Conn.emit] at this; omega
    refine ⟨hs _, ?_, ?_, ?_⟩
    · show balK .node (.alloc .chan :: c.log) = held (insertSorted ch _ c.chans) + d
      simp only [balK]; rw [(hnew _).1, hnode, hz]; simp
    · show balK .chan (.alloc .chan :: c.log) = ((insertSorted ch _ c.chans).length : Int)
      simp only [balK]; rw [(hnew _).2, hchan]; simp; omega
    · show balK .open_ (.alloc .chan :: c.log) = if (c.emit (.alloc .chan)).openCap > 0 then 1 else 0
      simp only [balK, Conn.emit]; rw [hopen]; simp
  · split
    · rename_i hnlt hzero
      have hc0 : c.openCap = 0 := by
        have : ((c.emit (.alloc .chan)).openCap == 0) = true := hzero
        simpa [Conn.emit] using this
      refine ⟨hs _, ?_, ?_, ?_⟩
      · show balK .node (.alloc .open_ :: .alloc .chan :: c.log) = held (insertSorted ch _ c.chans) + d
        simp only [balK]; rw [(hnew _).1, hnode, hz]; simp
      · show balK .chan (.alloc .open_ :: .alloc .chan :: c.log) = ((insertSorted ch _ c.chans).length : Int)
        simp only [balK]; rw [(hnew _).2, hchan]; simp; omega
      · show balK .open_ (.alloc .open_ :: .alloc .chan :: c.log) = if (32 : Nat) > 0 then 1 else 0
        simp only [balK]; rw [hopen, hc0]; simp
    · rename_i hnlt hnz
      have hcpos : 0 < c.openCap := by
        have : ¬ ((c.emit (.alloc .chan)).openCap == 0) = true := hnz
        simp [Conn.emit] at this; omega
      refine ⟨hs _, ?_, ?_, ?_⟩
      · show balK .node (.realloc .open_ :: .alloc .chan :: c.log) = held (insertSorted ch _ c.chans) + d
        simp only [balK]; rw [(hnew _).1, hnode, hz]; simp
      · show balK .chan (.realloc .open_ :: .alloc .chan :: c.log) = ((insertSorted ch _ c.chans).length : Int)
        simp only [balK]; rw [(hnew _).2, hchan]; simp; omega
      · show balK .open_ (.realloc .open_ :: .alloc .chan :: c.log) = if (c.emit (.alloc .chan)).openCap * 2 > 0 then 1 else 0
        simp only [balK, Conn.emit]; rw [hopen]
        have : 0 < c.openCap * 2 := by omega
        simp [hcpos, this]

theorem getOrCreateChan_bal (c : Conn) (b : Bunch) (inc : Bool) (d : Int) (h : BInvK c d) :
    BInvK (c.getOrCreateChan b inc).1 d ∧ ∀ x, (c.getOrCreateChan b inc).2 = some x → (c.getOrCreateChan b inc).1.getChan b.chIndex = some x := by
  unfold Conn.getOrCreateChan
  split
  · rename_i x hx
    exact ⟨h, fun y hy => by simp at hy; rw [← hy]; exact hx⟩
  · rename_i hn
    split
    · exact ⟨createChan_bal c b.chIndex d h hn, fun y hy => hy⟩
    · exact ⟨h, fun y hy => by simp at hy⟩

theorem receivedRawBunch_bal (c : Conn) (bits : Bits) (h : BInvK c 0) : BInvK (c.receivedRawBunch bits).1 0 := by
  unfold Conn.receivedRawBunch
  dsimp only
  have h0 : BInvK (c.emit (.alloc .node)) 1 := (emit_alloc_node c 0 h).cast (by omega)
  split
  · exact (emit_free_node _ _ (markClose_bal _ _ _ h0)).cast (by omega)
  · split
    · exact (emit_free_node _ _ (markClose_bal _ _ _ h0)).cast (by omega)
    · rename_i b rest hdec hch
      obtain ⟨g1, g2⟩ := getOrCreateChan_bal (c.emit (.alloc .node)) { b with packetId := (c.emit (.alloc .node)).inPacketId } true 1 h0
      split
      · exact (emit_free_node _ _ g1).cast (by omega)
      · rename_i x hx
        refine dispatchWaiting_bal _ _ _ (processBunch_bal _ x _ g1 ?_)
        rw [absSeq_chIndex]; exact g2 x hx

theorem bunchLoop_bal (fuel : Nat) : ∀ (c : Conn) (bits : Bits) (skip : Bool), BInvK c 0 → BInvK (Conn.bunchLoop fuel c bits skip).1 0 := by
  induction fuel with
  | zero => intro c bits skip h; exact h
  | succ f ih =>
    intro c bits skip h
    unfold Conn.bunchLoop
    split
    · exact h
    · exact ih _ _ _ (receivedRawBunch_bal c bits h)

/-! ### acknowledgements, retransmission, sending -/

theorem flush_openCap (e : Env) (c : Conn) : (c.flush e).openCap = c.openCap := by
  unfold Conn.flush
  split
  · rfl
  · split <;> rfl

theorem prepareWrite_openCap (e : Env) (c : Conn) (n : Nat) : (c.prepareWrite e n).openCap = c.openCap := by
  unfold Conn.prepareWrite
  dsimp only
  split
  · split
    · show (c.flush e).startPacket.openCap = _; exact flush_openCap e c
    · exact flush_openCap e c
  · split <;> rfl

theorem writeInternal_openCap (e : Env) (c : Conn) (bits : Bits) : (c.writeInternal e bits).1.openCap = c.openCap := by
  unfold Conn.writeInternal
  dsimp only
  split
  · rw [flush_openCap]
  · rfl

theorem writeBits_openCap (e : Env) (c : Conn) (bits : Bits) : (c.writeBits e bits).1.openCap = c.openCap := by
  unfold Conn.writeBits
  rw [writeInternal_openCap, prepareWrite_openCap]

theorem flush_bal (e : Env) (c : Conn) (d : Int) (h : BInvK c d) : BInvK (c.flush e) d :=
  adds_neutral h (flush_adds e c) isOut_neutral (flush_chans e c) (flush_openCap e c)

theorem writeBits_bal (e : Env) (c : Conn) (bits : Bits) (d : Int) (h : BInvK c d) : BInvK (c.writeBits e bits).1 d :=
  adds_neutral h (writeBits_adds e c bits) isOut_neutral (writeBits_chans e c bits) (writeBits_openCap e c bits)

theorem resendNodes_bal (e : Env) (ch : Nat) (nodes : List OutNode) : ∀ (c : Conn) (d : Int), BInvK c d → (c.getChan ch).isSome →
    BInvK (c.resendNodes e ch nodes) (d - nodes.length) ∧ ((c.resendNodes e ch nodes).getChan ch).isSome := by
  induction nodes with
  | nil => intro c d h hs; unfold Conn.resendNodes; exact ⟨by simpa using h, hs⟩
  | cons n rest ih =>
    intro c d h hs
    unfold Conn.resendNodes
    dsimp only
    have h1 := writeBits_bal e c n.bits d h
    have hg : (c.writeBits e n.bits).1.getChan ch = c.getChan ch := getChan_of_chans (writeBits_chans e c n.bits) ch
    cases hx : c.getChan ch with
    | none => rw [hx] at hs; simp at hs
    | some x =>
      rw [hx] at hg
      simp only [hg]
      have h2 := setChan_replace_bal _ ch x { x with outRec := x.outRec ++ [{ n with packetId := (c.writeBits e n.bits).2 }] } d h1 hg
      obtain ⟨i1, i2⟩ := ih _ _ h2 (by rw [getChan_setChan_self]; rfl)
      refine ⟨i1.cast ?_, i2⟩
      simp [nodesOf]; omega

theorem foldl_emit_free_bal {α} (l : List α) : ∀ (c : Conn) (d : Int), BInvK c d → BInvK (l.foldl (fun c _ => c.emit (.free .node)) c) (d - l.length) := by
  induction l with
  | nil => intro c d h; simpa using h
  | cons a rest ih =>
    intro c d h
    have := ih _ _ (emit_free_node c d h)
    simp only [List.foldl_cons, List.length_cons]
    exact this.cast (by push_cast; omega)

theorem removeOutgoing_lengths (pid : Int) (l : List OutNode) : (removeOutgoing pid l).1.length + (removeOutgoing pid l).2.length = l.length := by
  induction l with
  | nil => simp [removeOutgoing]
  | cons n rest ih =>
    unfold removeOutgoing
    split
    · simp only [List.length_cons]; omega
    · split
      · simp
      · simp only [List.length_cons]; omega

theorem onAckChans_bal (pid : Int) (chs : List Nat) : ∀ (c : Conn) (d : Int), BInvK c d → BInvK (c.onAckChans pid chs) d := by
  induction chs with
  | nil => intro c d h; exact h
  | cons ch rest ih =>
    intro c d h
    unfold Conn.onAckChans
    split
    · exact ih c d h
    · rename_i x hx
      dsimp only
      have hl := removeOutgoing_lengths pid x.outRec
      have h1 := setChan_replace_bal c ch x { x with outRec := (removeOutgoing pid x.outRec).2 } d h hx
      have h2 := foldl_emit_free_bal (removeOutgoing pid x.outRec).1 _ _ h1
      exact ih _ _ (h2.cast (by simp [nodesOf]; omega))

theorem onNakChans_bal (e : Env) (pid : Int) (chs : List Nat) : ∀ (c : Conn) (d : Int), BInvK c d → BInvK (c.onNakChans e pid chs) d := by
  induction chs with
  | nil => intro c d h; exact h
  | cons ch rest ih =>
    intro c d h
    unfold Conn.onNakChans
    split
    · exact ih c d h
    · rename_i x hx
      dsimp only
      have hl := removeOutgoing_lengths pid x.outRec
      have h1 := setChan_replace_bal c ch x { x with outRec := (removeOutgoing pid x.outRec).2 } d h hx
      obtain ⟨h2, _⟩ := resendNodes_bal e ch (removeOutgoing pid x.outRec).1 _ _ h1 (by rw [getChan_setChan_self]; rfl)
      exact ih _ _ (h2.cast (by simp [nodesOf]; omega))

theorem handleNotification_bal (e : Env) (c : Conn) (v : Int × Bool) (d : Int) (h : BInvK c d) : BInvK (c.handleNotification e v) d := by
  unfold Conn.handleNotification
  dsimp only
  have hst : ∀ p a, Neutral (.status p a) := fun p a => ⟨fun k hk => (by cases hk), fun k hk => (by cases hk)⟩
  split
  · exact h.of_eq rfl rfl rfl
  · split
    · exact emit_neutral _ _ _ (hst _ _) (onAckChans_bal _ _ _ _ (h.of_eq rfl rfl rfl))
    · exact emit_neutral _ _ _ (hst _ _) (onNakChans_bal e _ _ _ _ (h.of_eq rfl rfl rfl))

theorem notifyUpdate_bal (e : Env) (c : Conn) (hd : NotifHeader) (d : Int) (h : BInvK c d) : BInvK (c.notifyUpdate e hd) d := by
  obtain ⟨h1, h2⟩ := notifyUpdate_core e c hd
  have hcap : (c.notifyUpdate e hd).openCap = (notifyCore e c hd).openCap := by
    unfold Conn.notifyUpdate notifyCore; dsimp only; split <;> rfl
  refine BInvK.of_eq ?_ h1 h2 hcap
  unfold notifyCore
  have hfold : ∀ (vs : List (Int × Bool)) (c : Conn), BInvK c d → BInvK (vs.foldl (Conn.handleNotification e) c) d := by
    intro vs
    induction vs with
    | nil => intro c h; exact h
    | cons v rest ih => intro c h; exact ih _ (handleNotification_bal e c v d h)
  split
  · exact hfold _ _ (h.of_eq rfl rfl rfl)
  · exact h

/-- **`ReceivedPacket` on any bit string**: every node allocated for a parsed bunch is stored in exactly one list or released -/
theorem receivedPacket_bal (e : Env) (c : Conn) (bits : Bits) (h : BInvK c 0) : BInvK (c.receivedPacket e bits).1 0 := by
  unfold Conn.receivedPacket
  split
  · exact markClose_bal _ _ _ h
  · rename_i hd rest hdec
    dsimp only
    split
    · exact h
    · have h1 : BInvK ({ c with inPacketId := c.inPacketId + c.notify.deltaSeq hd } : Conn) 0 := h.of_eq rfl rfl rfl
      have h2 := notifyUpdate_bal e _ hd 0 h1
      have h3 := bunchLoop_bal (rest.length + 1) _ rest false h2
      generalize Conn.bunchLoop (rest.length + 1) (({ c with inPacketId := c.inPacketId + c.notify.deltaSeq hd } : Conn).notifyUpdate e hd) rest false = r at h3 ⊢
      obtain ⟨c3, rest', skip⟩ := r
      exact h3.of_eq rfl rfl rfl

theorem addOutRec_bal (c : Conn) (ch : Nat) (pid : Int) (bits : Bits) (d : Int) (h : BInvK c d) (hs : (c.getChan ch).isSome) :
    BInvK (c.addOutRec ch pid bits) (d - 1) := by
  unfold Conn.addOutRec
  split
  · rename_i hn; rw [hn] at hs; simp at hs
  · rename_i x hx
    exact (setChan_replace_bal c ch x _ d h hx).cast (by simp [nodesOf]; omega)

theorem sendCommit_bal (e : Env) (c : Conn) (b : Bunch) (h0 : Bits) (h : BInvK c 0) : BInvK (c.sendCommit e b h0).1 0 := by
  unfold Conn.sendCommit
  dsimp only
  have h1 : BInvK ((c.getOrCreateChan b false).1.noteClose b) 0 := noteClose_bal _ b 0 (getOrCreateChan_bal c b false 0 h).1
  generalize (c.getOrCreateChan b false).1.noteClose b = c1 at h1 ⊢
  split
  · exact h1
  · rename_i x hx
    generalize (if b.bReliable = true then x.outReliable + 1 else 0 : Int) = seq
    generalize (if b.bReliable = true then (encodeBunchHeader { b with chSeq := seq }).getD h0 else h0) = hdr
    have h2 : BInvK (if b.bReliable = true then c1.setChan b.chIndex { x with outReliable := seq } else c1) 0 ∧
        ((if b.bReliable = true then c1.setChan b.chIndex { x with outReliable := seq } else c1).getChan b.chIndex).isSome := by
      split
      · exact ⟨setChan_same_bal c1 _ x _ 0 h1 hx rfl, by rw [getChan_setChan_self]; rfl⟩
      · exact ⟨h1, by rw [hx]; rfl⟩
    generalize (if b.bReliable = true then c1.setChan b.chIndex { x with outReliable := seq } else c1) = c2 at h2 ⊢
    have h3 : BInvK (c2.prepareWrite e (hdr.length + b.data.length)) 0 :=
      adds_neutral h2.1 (prepareWrite_adds e c2 _) isOut_neutral (prepareWrite_chans e c2 _) (prepareWrite_openCap e c2 _)
    have h4 : BInvK ((c2.prepareWrite e (hdr.length + b.data.length)).writeInternal e (hdr ++ b.data)).1 0 :=
      adds_neutral h3 (writeInternal_adds e _ _) isOut_neutral (writeInternal_chans e _ _) (writeInternal_openCap e _ _)
    have hs4 : (((c2.prepareWrite e (hdr.length + b.data.length)).writeInternal e (hdr ++ b.data)).1.getChan b.chIndex).isSome := by
      rw [getChan_of_chans (writeInternal_chans e _ _), getChan_of_chans (prepareWrite_chans e c2 _)]; exact h2.2
    split
    · have h5 := emit_alloc_node _ 0 h4
      exact (addOutRec_bal _ b.chIndex _ _ _ h5 hs4).cast (by omega)
    · exact h4

theorem sendBunch_bal (e : Env) (c : Conn) (b : Bunch) (h : BInvK c 0) : BInvK (c.sendBunch e b).1 0 := by
  have hraw : BInvK (c.sendRaw e b).1 0 := by
    unfold Conn.sendRaw
    split
    · exact h
    · exact sendCommit_bal e c b _ h
  unfold Conn.sendBunch
  generalize c.sendRaw e b = r at hraw ⊢
  obtain ⟨c', rr⟩ := r
  simp only at hraw ⊢
  split <;> exact hraw

/-! ### teardown -/

theorem freeNodes_balK (c : Conn) (n : Nat) (k : Kind) : balK k (c.freeNodes n).log = balK k c.log - (if k = .node then (n : Int) else 0) := by
  unfold Conn.freeNodes
  have : ∀ (l : List Nat) (c : Conn), balK k (l.foldl (fun c _ => c.emit (.free .node)) c).log = balK k c.log - (if k = .node then (l.length : Int) else 0) := by
    intro l
    induction l with
    | nil => intro c; simp
    | cons a rest ih =>
      intro c
      simp only [List.foldl_cons, List.length_cons]
      rw [ih]
      show (if Kind.node = k then (-1 : Int) else 0) + balK k c.log - _ = _
      by_cases hk : k = .node
      · subst hk; simp; omega
      · have : ¬ Kind.node = k := fun h => hk h.symm
        simp [hk, this]
  have := this (List.range n) c
  simpa using this

theorem freeChan_effect (c : Conn) (x : Channel) :
    balK .node (c.freeChan x).log = balK .node c.log - nodesOf x ∧ balK .chan (c.freeChan x).log = balK .chan c.log - 1 ∧
    balK .open_ (c.freeChan x).log = balK .open_ c.log ∧ (c.freeChan x).chans = c.chans ∧ (c.freeChan x).openCap = c.openCap := by
  unfold Conn.freeChan
  dsimp only
  refine ⟨?_, ?_, ?_, ?_, ?_⟩
  · show (if Kind.chan = Kind.node then (-1 : Int) else 0) + balK .node (((c.freeNodes _).freeNodes _).freeNodes _).log = _
    rw [freeNodes_balK, freeNodes_balK, freeNodes_balK]; simp [nodesOf]; omega
  · show (if Kind.chan = Kind.chan then (-1 : Int) else 0) + balK .chan (((c.freeNodes _).freeNodes _).freeNodes _).log = _
    rw [freeNodes_balK, freeNodes_balK, freeNodes_balK]; simp; omega
  · show (if Kind.chan = Kind.open_ then (-1 : Int) else 0) + balK .open_ (((c.freeNodes _).freeNodes _).freeNodes _).log = _
    rw [freeNodes_balK, freeNodes_balK, freeNodes_balK]; simp
  · show (((c.freeNodes _).freeNodes _).freeNodes _).chans = c.chans
    rw [freeNodes_chansB, freeNodes_chansB, freeNodes_chansB]
  · show (((c.freeNodes _).freeNodes _).freeNodes _).openCap = c.openCap
    have : ∀ (c : Conn) n, (c.freeNodes n).openCap = c.openCap := by
      intro c n
      unfold Conn.freeNodes
      have : ∀ (l : List Nat) (c : Conn), (l.foldl (fun c _ => c.emit (.free .node)) c).openCap = c.openCap := by
        intro l
        induction l with
        | nil => intro c; rfl
        | cons a rest ih => intro c; exact ih _
      exact this _ _
    rw [this, this, this]

theorem held_filter (l : List (Nat × Channel)) (p : Nat × Channel) (hs : KeysSorted l) (hp : p ∈ l) :
    held (l.filter (·.1 != p.1)) = held l - nodesOf p.2 ∧ ((l.filter (·.1 != p.1)).length : Int) = l.length - 1 := by
  induction l with
  | nil => simp at hp
  | cons q rest ih =>
    unfold KeysSorted at hs
    rw [List.pairwise_cons] at hs
    rcases List.mem_cons.mp hp with rfl | hp
    · -- the head is removed, everything behind it has a larger key and stays
      have hrest : rest.filter (·.1 != p.1) = rest := by
        rw [List.filter_eq_self]
        intro r hr
        have := hs.1 r hr
        simp; omega
      simp only [List.filter_cons, bne_self_eq_false, Bool.false_eq_true, if_false, hrest, held_cons, List.length_cons]
      exact ⟨by omega, by push_cast; omega⟩
    · have hne : (q.1 != p.1) = true := by
        have := hs.1 p hp
        simp; omega
      obtain ⟨i1, i2⟩ := ih hs.2 hp
      simp only [List.filter_cons, hne, if_true, held_cons, List.length_cons, i1]
      exact ⟨by omega, by push_cast; omega⟩

theorem delayClose_bal (c : Conn) (h : BInvK c 0) : BInvK c.delayClose 0 := by
  unfold Conn.delayClose
  split
  · exact h
  · dsimp only
    have hfold : ∀ (l : List (Nat × Channel)) (c' : Conn), BInvK c' 0 → (∀ q ∈ l, q ∈ c'.chans) → l.Pairwise (fun a b => a.1 ≠ b.1) →
        BInvK (l.foldl (fun c (p : Nat × Channel) =>
          if !p.2.bClose then c
          else if !p.2.outRec.isEmpty then { c with hasChannelClose := true }
          else { c.freeChan p.2 with chans := c.chans.filter (·.1 != p.1) }) c') 0 := by
      intro l
      induction l with
      | nil => intro c' h' _ _; exact h'
      | cons p rest ih =>
        intro c' h' hmem hpw
        rw [List.pairwise_cons] at hpw
        simp only [List.foldl_cons]
        have hrestmem : ∀ q ∈ rest, q ∈ c'.chans := fun q hq => hmem q (List.mem_cons_of_mem _ hq)
        split
        · exact ih _ h' hrestmem hpw.2
        · split
          · exact ih _ (h'.of_eq rfl rfl rfl) hrestmem hpw.2
          · obtain ⟨e1, e2, e3, e4, e5⟩ := freeChan_effect c' p.2
            have hp : p ∈ c'.chans := hmem p List.mem_cons_self
            obtain ⟨f1, f2⟩ := held_filter c'.chans p h'.sorted hp
            have hnew : BInvK ({ c'.freeChan p.2 with chans := c'.chans.filter (·.1 != p.1) } : Conn) 0 := by
              refine ⟨?_, ?_, ?_, ?_⟩
              · exact List.Pairwise.filter _ h'.sorted
              · show balK .node (c'.freeChan p.2).log = held (c'.chans.filter (·.1 != p.1)) + 0
                rw [e1, f1, h'.node]; omega
              · show balK .chan (c'.freeChan p.2).log = ((c'.chans.filter (·.1 != p.1)).length : Int)
                rw [e2, f2, h'.chan]
              · show balK .open_ (c'.freeChan p.2).log = if (c'.freeChan p.2).openCap > 0 then 1 else 0
                rw [e3, e5]; exact h'.open_
            refine ih _ hnew ?_ hpw.2
            intro q hq
            show q ∈ c'.chans.filter (·.1 != p.1)
            rw [List.mem_filter]
            refine ⟨hrestmem q hq, ?_⟩
            have := hpw.1 q hq
            simp; exact fun h => this h.symm
    refine hfold c.chans.reverse _ (h.of_eq rfl rfl rfl) (fun q hq => by simpa using hq) ?_
    rw [List.pairwise_reverse]
    exact h.sorted.imp (fun hlt => by omega)

/-- `utcp_update` of a connected endpoint -/
theorem update_bal (e : Env) (c : Conn) (h : BInvK c 0) : BInvK (c.checkTimeout e).updateTail.1 0 := by
  have h1 : BInvK (c.checkTimeout e) 0 := by
    unfold Conn.checkTimeout
    split
    · exact markClose_bal _ _ _ h
    · exact h
  have h2 := delayClose_bal _ h1
  unfold Conn.updateTail
  dsimp only
  split
  · exact h2
  · exact emit_neutral _ _ _ ⟨fun k hk => (by cases hk), fun k hk => (by cases hk)⟩ h2

theorem foldl_freeChan (l : List (Nat × Channel)) : ∀ c' : Conn,
    balK .node (l.foldl (fun c p => c.freeChan p.2) c').log = balK .node c'.log - held l ∧
    balK .chan (l.foldl (fun c p => c.freeChan p.2) c').log = balK .chan c'.log - l.length ∧
    balK .open_ (l.foldl (fun c p => c.freeChan p.2) c').log = balK .open_ c'.log ∧
    (l.foldl (fun c p => c.freeChan p.2) c').openCap = c'.openCap := by
  induction l with
  | nil => intro c'; simp [held]
  | cons p rest ih =>
    intro c'
    obtain ⟨e1, e2, e3, _, e5⟩ := freeChan_effect c' p.2
    obtain ⟨i1, i2, i3, i4⟩ := ih (c'.freeChan p.2)
    simp only [List.foldl_cons, held_cons, List.length_cons]
    refine ⟨by rw [i1, e1]; omega, by rw [i2, e2]; push_cast; omega, by rw [i3, e3], by rw [i4, e5]⟩

/-- **`utcp_channels_uninit` in any state**: afterwards every node, every channel block and the open-channel array have been
released exactly as often as they were obtained -/
theorem uninitChans_balanced (c : Conn) (h : BInvK c 0) :
    balK .node c.uninitChans.log = 0 ∧ balK .chan c.uninitChans.log = 0 ∧ balK .open_ c.uninitChans.log = 0 := by
  unfold Conn.uninitChans
  dsimp only
  obtain ⟨f1, f2, f3, f4⟩ := foldl_freeChan c.chans c
  have hn := h.node
  have hc := h.chan
  have ho := h.open_
  split
  · rename_i hpos
    rw [f4] at hpos
    refine ⟨?_, ?_, ?_⟩
    · show (if Kind.open_ = Kind.node then (-1 : Int) else 0) + balK .node _ = 0
      rw [f1, hn]; simp
    · show (if Kind.open_ = Kind.chan then (-1 : Int) else 0) + balK .chan _ = 0
      rw [f2, hc]; simp
    · show (if Kind.open_ = Kind.open_ then (-1 : Int) else 0) + balK .open_ _ = 0
      rw [f3, ho]; simp [hpos]
  · rename_i hnpos
    rw [f4] at hnpos
    refine ⟨by rw [f1, hn]; simp, by rw [f2, hc]; simp, ?_⟩
    rw [f3, ho]; simp [hnpos]

/-- a fresh connection holds nothing -/
theorem fresh_bal (c : Conn) (hc : c.chans = []) (hl : c.log = []) (ho : c.openCap = 0) : BInvK c 0 :=
  ⟨by rw [hc]; exact List.Pairwise.nil, by rw [hc, hl]; rfl, by rw [hc, hl]; rfl, by rw [hl, ho]; rfl⟩

end Utcp
