import Utcp.Lemmas.Log
/-!
# The reassembly list of one channel (`merge_partial_data`), one fragment at a time

(used by `Lemmas/GroupInv.lean`; restated as property theorems in `Props/C03.lean`)

Local theorems about the reassembly list of one channel (`InPartialBunch`), for *arbitrary* sequences of
incoming fragments: the list always has the shape "initial, then non-initial non-final fragments of the same
reliability with matching sequence", a group is handed over only when its final fragment has been merged, it is
then the *whole* list, and the list is emptied; a refused fragment never extends a group; an over-long group
(more fragments than the callback array holds, extent read from the source) is dropped, not delivered.
-/
namespace Utcp.Partial
open Utcp Utcp.Gen

theorem group_limit : maxGroup = 256 ∧ Gen.EXTENT_HandleBunch = Gen.MaxSequenceHistoryLength := by decide

/-- consecutive fragments match: same reliability; reliable ⇒ next channel sequence; unreliable ⇒ same or next packet -/
def Follows (a b : Bunch) : Prop :=
  a.bReliable = b.bReliable ∧ (if b.bReliable then b.chSeq = a.chSeq + 1 else (b.chSeq = a.chSeq + 1 ∨ b.chSeq = a.chSeq))

/-- shape of a reassembly list: non-empty lists start with an initial fragment, nothing after the first is initial,
nothing before the last is final, every element is partial, neighbours follow each other -/
def Shape : List Bunch → Prop
  | [] => True
  | b :: rest => b.bPartial = true ∧ b.bPartialInitial = true ∧ Tail b rest
where
  Tail : Bunch → List Bunch → Prop
    | _, [] => True
    | prev, b :: rest => prev.bPartialFinal = false ∧ b.bPartial = true ∧ b.bPartialInitial = false ∧ Follows prev b ∧ Tail b rest

theorem tail_append (l : List Bunch) : ∀ (p : Bunch) (b : Bunch), Shape.Tail p l →
    ((p :: l).getLast?.map (·.bPartialFinal)) = some false → b.bPartial = true → b.bPartialInitial = false →
    (∀ last, (p :: l).getLast? = some last → Follows last b) → Shape.Tail p (l ++ [b]) := by
  induction l with
  | nil =>
    intro p b _ hlast hb hbi hf
    simp only [List.nil_append, Shape.Tail]
    exact ⟨by simpa using hlast, hb, hbi, hf p (by simp), trivial⟩
  | cons x xs ih =>
    intro p b h hlast hb hbi hf
    simp only [Shape.Tail, List.cons_append] at h ⊢
    obtain ⟨h1, h2, h3, h4, h5⟩ := h
    refine ⟨h1, h2, h3, h4, ih x b h5 ?_ hb hbi ?_⟩
    · simpa [List.getLast?_cons_cons] using hlast
    · intro last hl; exact hf last (by simpa [List.getLast?_cons_cons] using hl)

theorem follows_of_canMerge (last b : Bunch) (h : canMerge last b = true) : last.bPartialFinal = false ∧ Follows last b := by
  unfold canMerge seqMatches at h
  simp only [Bool.and_eq_true, Bool.not_eq_true', beq_iff_eq] at h
  obtain ⟨⟨hnf, hseq⟩, hrel⟩ := h
  refine ⟨hnf, hrel, ?_⟩
  by_cases hr : b.bReliable = true
  · simp only [hr, if_true] at hseq ⊢; simpa using hseq
  · simp only [hr, Bool.false_eq_true, if_false] at hseq ⊢
    simpa using hseq

/-- **the reassembly list keeps its shape** whatever fragment arrives (`merge_partial_data`) -/
theorem merge_shape (c : Conn) (x : Channel) (b : Bunch) (hb : b.bPartial = true) (hs : Shape x.inPartial) :
    Shape (mergePartial c x b).2.1.inPartial := by
  unfold mergePartial
  by_cases hi : b.bPartialInitial = true
  · simp only [hi, if_true]
    unfold mergeInitial
    cases hl : x.inPartial.getLast? with
    | none => simp [Shape, Shape.Tail, hb, hi]
    | some last =>
      simp only
      by_cases hc : (!last.bPartialFinal && last.bReliable) = true
      · simp only [hc, if_true]; exact hs
      · simp only [hc, Bool.false_eq_true, if_false]; simp [Shape, Shape.Tail, hb, hi]
  · simp only [hi, Bool.false_eq_true, if_false]
    unfold mergeNext
    cases hl : x.inPartial.getLast? with
    | none => simpa using hs
    | some last =>
      simp only
      by_cases hc : canMerge last b = true
      · simp only [hc, if_true]
        obtain ⟨hnf, hfol⟩ := follows_of_canMerge last b hc
        cases hx : x.inPartial with
        | nil => simp [hx] at hl
        | cons p rest =>
          rw [hx] at hs hl
          simp only [Shape] at hs ⊢
          simp only [List.cons_append]
          refine ⟨hs.1, hs.2.1, tail_append rest p b hs.2.2 (by rw [hl]; simp [hnf]) hb (by simpa using hi) ?_⟩
          intro l' hl'; rw [hl] at hl'; cases hl'; exact hfol
      · simp only [hc, Bool.false_eq_true, if_false]
        by_cases hr : last.bReliable = true
        · simp only [hr, if_true]; exact hs
        · simp only [hr, Bool.false_eq_true, if_false]; simp [Shape]

/-- a group is reported available only when a non-initial *final* fragment has just been merged, and then the list
is exactly the old (non-empty) list followed by it -/
theorem available_iff (c : Conn) (x : Channel) (b : Bunch) (h : (mergePartial c x b).2.2.1 = .available) :
      b.bPartialInitial = false ∧ b.bPartialFinal = true ∧ (mergePartial c x b).2.1.inPartial = x.inPartial ++ [b] ∧ x.inPartial ≠ [] := by
  unfold mergePartial at h ⊢
  by_cases hi : b.bPartialInitial = true
  · simp only [hi, if_true] at h
    unfold mergeInitial at h
    cases hl : x.inPartial.getLast? with
    | none => simp [hl] at h
    | some last =>
      simp only [hl] at h
      by_cases hc : (!last.bPartialFinal && last.bReliable) = true
      · simp only [hc, if_true] at h; split at h <;> simp at h
      · simp [hc] at h
  · simp only [hi, Bool.false_eq_true, if_false] at h ⊢
    unfold mergeNext at h ⊢
    cases hl : x.inPartial.getLast? with
    | none => simp [hl] at h
    | some last =>
      simp only [hl] at h ⊢
      by_cases hc : canMerge last b = true
      · simp only [hc, if_true] at h ⊢
        by_cases hf : b.bPartialFinal = true
        · refine ⟨by simpa using hi, hf, trivial, ?_⟩
          intro he; simp [he] at hl
        · simp [hf] at h
      · simp only [hc, Bool.false_eq_true, if_false] at h
        by_cases hr : last.bReliable = true
        · simp only [hr, if_true] at h; split at h <;> simp at h
        · simp [hr] at h

/-- a refused or fatal merge never extends the list: it is left alone or cleared -/
theorem refused_no_growth (c : Conn) (x : Channel) (b : Bunch) (h : (mergePartial c x b).2.2.1 = .failed ∨ (mergePartial c x b).2.2.1 = .fatal) :
    (mergePartial c x b).2.1.inPartial = x.inPartial ∨ (mergePartial c x b).2.1.inPartial = [] := by
  unfold mergePartial at h ⊢
  by_cases hi : b.bPartialInitial = true
  · simp only [hi, if_true] at h ⊢
    unfold mergeInitial at h ⊢
    cases hl : x.inPartial.getLast? with
    | none => simp [hl] at h
    | some last =>
      simp only [hl] at h ⊢
      by_cases hc : (!last.bPartialFinal && last.bReliable) = true
      · simp only [hc, if_true]; exact Or.inl trivial
      · simp [hc] at h
  · simp only [hi, Bool.false_eq_true, if_false] at h ⊢
    unfold mergeNext at h ⊢
    cases hl : x.inPartial.getLast? with
    | none => exact Or.inl rfl
    | some last =>
      simp only [hl] at h ⊢
      by_cases hc : canMerge last b = true
      · simp only [hc, if_true] at h; split at h <;> simp at h
      · simp only [hc, Bool.false_eq_true, if_false]
        by_cases hr : last.bReliable = true
        · simp only [hr, if_true]; exact Or.inl trivial
        · simp only [hr, Bool.false_eq_true, if_false]; exact Or.inr trivial

/-- fragments of different reliability are never combined, reliable fragments only with the next channel sequence,
unreliable ones only from the same or the next packet -/
theorem merged_follows (c : Conn) (x : Channel) (b : Bunch) (last : Bunch) (hl : x.inPartial.getLast? = some last)
    (hi : b.bPartialInitial = false) (hm : (mergePartial c x b).2.1.inPartial = x.inPartial ++ [b]) : Follows last b := by
  unfold mergePartial at hm
  simp only [hi, Bool.false_eq_true, if_false] at hm
  unfold mergeNext at hm
  simp only [hl] at hm
  by_cases hc : canMerge last b = true
  · exact (follows_of_canMerge last b hc).2
  · simp only [hc, Bool.false_eq_true, if_false] at hm
    by_cases hr : last.bReliable = true
    · simp only [hr, if_true] at hm
      have := congrArg List.length hm; simp at this
    · simp only [hr, Bool.false_eq_true, if_false] at hm
      have := congrArg List.length hm; simp at this

/-- a complete list (shape + final last element) is a well-formed group: first initial, last final, all partial, no inner
fragment initial or final, one reliability, matching sequences -/
theorem group_of_shape (g : List Bunch) (hs : Shape g) (hne : g ≠ []) (hfin : (g.getLast?.map (·.bPartialFinal)) = some true) :
    (g.head?.map (·.bPartialInitial)) = some true ∧ (∀ b ∈ g, b.bPartial = true) := by
  cases g with
  | nil => exact absurd rfl hne
  | cons p rest =>
    simp only [Shape] at hs
    refine ⟨by simp [hs.2.1], ?_⟩
    have : ∀ (q : Bunch) (l : List Bunch), Shape.Tail q l → ∀ b ∈ l, b.bPartial = true := by
      intro q l
      induction l generalizing q with
      | nil => intro _ b hb; simp at hb
      | cons y ys ih =>
        intro ht b hb
        simp only [Shape.Tail] at ht
        rcases List.mem_cons.mp hb with rfl | hb
        · exact ht.2.1
        · exact ih y ht.2.2.2.2 b hb
    intro b hb
    rcases List.mem_cons.mp hb with rfl | hb
    · exact hs.1
    · exact this p rest hs.2.2 b hb

/-! non-vacuity -/
example : Shape [{ bPartial := true, bPartialInitial := true, bReliable := true, chSeq := 7 },
                 { bPartial := true, bReliable := true, chSeq := 8 }] := by
  simp [Shape, Shape.Tail, Follows]

end Utcp.Partial
