import Utcp.Lemmas.SendInv
import Utcp.Lemmas.Origin
import Utcp.Lemmas.Balance
import Utcp.Lemmas.OutSeq
/-!
# What a sender puts on the wire (sender side)

`seen b`: what of a bunch is transmitted and shown to the receiving application, sequence numbers aside.  `SentQ sent q`: `q` looks like
one of the bunches in `sent`.  `GoodBody sent bits`: `bits` is a concatenation of encodings of well-formed bunches each of which looks
like a bunch in `sent`.  `EInv sent c`: the send buffer and every retransmission record of `c` are good bodies.  Every function of the
library keeps `EInv` (a send adds the new bunch to `sent`), and every datagram emitted carries a good body.
-/
namespace Utcp
open Gen

/-- the fields of a bunch that travel and are handed to the peer's application (the encoder ignores the rest) -/
def seen (b : Bunch) : Bunch :=
  { b with closeReason := if b.bClose then b.closeReason else 0,
           bPartialInitial := b.bPartial && b.bPartialInitial, bPartialFinal := b.bPartial && b.bPartialFinal,
           nameIndex := if b.bReliable || b.bOpen then b.nameIndex % 2 ^ 32 else 0, chSeq := 0, packetId := 0 }

/-- the same bunch with the ignored fields cleared: what the encoder effectively writes (sequence kept) -/
def nrm (b : Bunch) : Bunch :=
  { b with closeReason := if b.bClose then b.closeReason else 0,
           bPartialInitial := b.bPartial && b.bPartialInitial, bPartialFinal := b.bPartial && b.bPartialFinal,
           nameIndex := if b.bReliable || b.bOpen then b.nameIndex % 2 ^ 32 else 0,
           chSeq := if b.bReliable then b.chSeq else 0 }

theorem seen_wireView_nrm (b : Bunch) : seen (wireView (nrm b)) = seen b := by
  unfold seen wireView nrm
  cases hb : b.bClose <;> cases hp : b.bPartial <;> cases hr : b.bReliable <;> cases ho : b.bOpen <;> simp

theorem encodeBunchHeader_nrm (b : Bunch) : encodeBunchHeader (nrm b) = encodeBunchHeader b := by
  unfold encodeBunchHeader nrm
  cases hc : b.bClose <;> cases hp : b.bPartial <;> cases hr : b.bReliable <;> cases ho : b.bOpen <;>
    simp [writeCtl, writeSeq, writePartialFlags, writeName, writeIntPacked]

theorem encB_nrm (b : Bunch) : encB (nrm b) = encB b := by
  unfold encB encodeBunch
  rw [encodeBunchHeader_nrm]
  rfl

theorem wf_nrm (b : Bunch) (hr : b.bClose = true → b.closeReason < 15) (hch : b.chIndex < 65536) (hlen : b.data.length < 8192) : WFBunch (nrm b) := by
  unfold nrm
  refine ⟨?_, hch, ?_, ?_, ?_, ?_, hlen, ?_⟩
  · simp only
    cases hc : b.bClose
    · simp
    · simp; exact hr hc
  · intro hp; simp only at hp ⊢; simp [hp]
  · intro hp; simp only at hp ⊢; simp [hp]
  · simp only; split
    · exact Nat.mod_lt _ (by decide)
    · decide
  · intro h1 h2; simp only at h1 h2 ⊢; simp [h1, h2]
  · intro h1; simp only at h1 ⊢; simp [h1]

/-- `q` looks like a bunch in `sent` — and, if reliable, carries that bunch's channel sequence number modulo 1024 (the elements of `sent`
carry the sequence number the sender assigned) -/
def SentQ (sent : List Bunch) (q : Bunch) : Prop := ∃ b ∈ sent, seen q = seen b ∧ (q.bReliable = true → q.chSeq % 1024 = b.chSeq % 1024)

theorem makeRelative_residue (v r : Int) : MakeRelative_chseq v r % 1024 = v % 1024 := by
  simp only [MakeRelative_chseq, BestSignedDifference_chseq]
  omega

theorem sentQ_stable (sent : List Bunch) : QStable (SentQ sent) := by
  refine ⟨?_, ?_, ?_⟩
  · intro b ref hr ⟨x, hx, he, hs⟩
    refine ⟨x, hx, by rw [← he]; rfl, fun _ => ?_⟩
    show MakeRelative_chseq b.chSeq ref % 1024 = x.chSeq % 1024
    rw [makeRelative_residue]; exact hs hr
  · intro b s hr ⟨x, hx, he, _⟩
    exact ⟨x, hx, by rw [← he]; rfl, fun h => by simp only [hr] at h; cases h⟩
  · intro b p ⟨x, hx, he, hs⟩
    exact ⟨x, hx, by rw [← he]; rfl, hs⟩

theorem SentQ.mono {sent sent' : List Bunch} {q : Bunch} (h : SentQ sent q) (hs : ∀ b ∈ sent, b ∈ sent') : SentQ sent' q := by
  obtain ⟨b, hb, he⟩ := h; exact ⟨b, hs b hb, he⟩

def GoodBody (sent : List Bunch) (bits : Bits) : Prop := ∃ bs, bits = bodyOf bs ∧ ∀ b ∈ bs, WFBunch b ∧ SentQ sent (wireView b)

theorem GoodBody.nil (sent : List Bunch) : GoodBody sent [] := ⟨[], rfl, by intro b hb; simp at hb⟩

theorem GoodBody.append {sent : List Bunch} {a b : Bits} (ha : GoodBody sent a) (hb : GoodBody sent b) : GoodBody sent (a ++ b) := by
  obtain ⟨as, rfl, h1⟩ := ha
  obtain ⟨bs, rfl, h2⟩ := hb
  refine ⟨as ++ bs, by simp [bodyOf], ?_⟩
  intro x hx
  rcases List.mem_append.mp hx with hx | hx
  · exact h1 x hx
  · exact h2 x hx

theorem GoodBody.mono {sent sent' : List Bunch} {bits : Bits} (h : GoodBody sent bits) (hs : ∀ b ∈ sent, b ∈ sent') : GoodBody sent' bits := by
  obtain ⟨bs, hb, hall⟩ := h
  exact ⟨bs, hb, fun b hb' => ⟨(hall b hb').1, (hall b hb').2.mono hs⟩⟩

/-- a datagram of the data path carries a good body behind its two headers -/
def EP (mb mg : Nat) (sent : List Bunch) (ev : Event) : Prop :=
  ∀ d, ev = .out d → ∃ (e : Env) (s cl : Nat) (hh : NotifHeader) (body : Bits), (e.magicBits = mb ∧ e.magic = mg) ∧ Props.C11.WFHeader hh ∧
    d = bitsToBytes (outgoingHeader e s cl false ++ encodeNotifHeader hh ++ body ++ [true, true]) ∧ GoodBody sent body

theorem eP_of_not_out (mb mg : Nat) (sent : List Bunch) (ev : Event) (h : ∀ d, ev ≠ .out d) : EP mb mg sent ev := fun d hd => absurd hd (h d)

theorem EP.mono {mb mg : Nat} {sent sent' : List Bunch} {ev : Event} (h : EP mb mg sent ev) (hs : ∀ b ∈ sent, b ∈ sent') : EP mb mg sent' ev := by
  intro d hd
  obtain ⟨e, s, cl, N, body, hm, h0, h1, h2⟩ := h d hd
  exact ⟨e, s, cl, N, body, hm, h0, h1, h2.mono hs⟩

abbrev GoodN (sent : List Bunch) : OutNode → Prop := fun n => GoodBody sent n.bits

/-- what makes the packet header of the next datagram a well-formed header encoding -/
structure HInv (c : Conn) : Prop where
  hist : c.notify.hist.length = 256
  seqs : (0 ≤ c.notify.outSeq ∧ c.notify.outSeq < 16384) ∧ (0 ≤ c.notify.inAckSeq ∧ c.notify.inAckSeq < 16384)
  enc : c.sendActive = true → ∃ h, Props.C11.WFHeader h ∧ c.sendNotif = encodeNotifHeader h ∧ h.words = c.notify.writtenWords

theorem HInv.same {c c' : Conn} (h : HInv c) (h1 : c'.notify = c.notify) (h2 : c'.sendActive = c.sendActive) (h3 : c'.sendNotif = c.sendNotif) : HInv c' :=
  ⟨by rw [h1]; exact h.hist, by rw [h1]; exact h.seqs, fun ha => by rw [h3, h1]; exact h.enc (by rw [← h2]; exact ha)⟩

theorem HInv.ofSameN {c c' : Conn} (h : HInv c) (hs : SameN c c') : HInv c' := h.same hs.notify hs.sendActive hs.sendNotif

/-- other fields of the notify state may change -/
theorem HInv.notify {c : Conn} (h : HInv c) (n : Notify) (h1 : n.hist = c.notify.hist) (h2 : n.writtenWords = c.notify.writtenWords)
    (h3 : n.outSeq = c.notify.outSeq) (h4 : n.inAckSeq = c.notify.inAckSeq) : HInv { c with notify := n } :=
  ⟨by show n.hist.length = 256; rw [h1]; exact h.hist,
   by show (0 ≤ n.outSeq ∧ n.outSeq < 16384) ∧ (0 ≤ n.inAckSeq ∧ n.inAckSeq < 16384); rw [h3, h4]; exact h.seqs,
   fun ha => by
     obtain ⟨hh, w1, w2, w3⟩ := h.enc ha
     exact ⟨hh, w1, w2, by show hh.words = n.writtenWords; rw [h2]; exact w3⟩⟩

/-- the header that goes out with the packet is a well-formed header encoding -/
theorem finalHeader_wf (c : Conn) (h : HInv c) (ha : c.sendActive = true) : ∃ hh, Props.C11.WFHeader hh ∧ c.finalHeader.2 = encodeNotifHeader hh := by
  obtain ⟨h0, w1, w2, w3⟩ := h.enc ha
  unfold Conn.finalHeader Notify.fillRefresh
  split
  · rename_i n hd heq
    split at heq
    · simp at heq
    · simp at heq
      obtain ⟨_, rfl⟩ := heq
      refine ⟨_, ⟨h.seqs.1, h.seqs.2, by rw [← w3]; exact w1.words, ?_⟩, rfl⟩
      have hw8 : c.notify.writtenWords ≤ 8 := by rw [← w3]; exact w1.words.2
      exact Size.headerWith_hist_length _ _ h.hist hw8
  · exact ⟨h0, w1, w2⟩

theorem startPacket_hinv (c : Conn) (h : HInv c) : HInv c.startPacket := by
  have hr := Size.curWords_range c.notify
  refine ⟨h.hist, h.seqs, fun _ => ⟨c.notify.headerWith c.notify.curWords, ⟨h.seqs.1, h.seqs.2, hr, Size.headerWith_hist_length _ _ h.hist hr.2⟩, rfl, rfl⟩⟩

theorem flushNow_hinv (e : Env) (c : Conn) (h : HInv c) : HInv (c.flushNow e) := by
  obtain ⟨_, _, k3, _, k5⟩ := finalHeader_keeps c
  have kout : c.finalHeader.1.outSeq = c.notify.outSeq := by
    unfold Conn.finalHeader Notify.fillRefresh
    split
    · rename_i n hh heq
      split at heq
      · simp at heq
      · simp at heq; obtain ⟨rfl, _⟩ := heq; rfl
    · rfl
  refine ⟨?_, ⟨?_, ?_⟩, fun hx => absurd hx (by simp [Conn.flushNow])⟩
  · show c.finalHeader.1.commit.hist.length = 256
    unfold Notify.commit; simp only; rw [k5]; exact h.hist
  · show 0 ≤ seq_num_inc c.finalHeader.1.outSeq 1 ∧ seq_num_inc c.finalHeader.1.outSeq 1 < 16384
    simp only [seq_num_inc, seq_num_init]; omega
  · show 0 ≤ c.finalHeader.1.inAckSeq ∧ c.finalHeader.1.inAckSeq < 16384
    rw [k3]; exact h.seqs.2

structure EInv (sent : List Bunch) (c : Conn) : Prop where
  body : GoodBody sent c.sendBody
  recs : AllOKP (GoodN sent) c
  hdr : HInv c

theorem EInv.mono {sent sent' : List Bunch} {c : Conn} (h : EInv sent c) (hs : ∀ b ∈ sent, b ∈ sent') : EInv sent' c :=
  ⟨h.body.mono hs, fun p hp n hn => (h.recs p hp n hn).mono hs, h.hdr⟩

theorem EInv.of_fields {sent : List Bunch} {c c' : Conn} (h : EInv sent c) (h1 : c'.sendBody = c.sendBody) (h2 : AllOKP (GoodN sent) c') (h3 : HInv c') : EInv sent c' :=
  ⟨by rw [h1]; exact h.body, h2, h3⟩

/-! ### the sending machinery -/

theorem startPacket_einv (sent : List Bunch) (c : Conn) (h : EInv sent c) : EInv sent c.startPacket :=
  ⟨GoodBody.nil _, h.recs.of_chans rfl, startPacket_hinv c h.hdr⟩

theorem flushNow_einv {mb mg : Nat} (sent : List Bunch) (e : Env) (he : e.magicBits = mb ∧ e.magic = mg) (c : Conn) (h : EInv sent c) (ha : c.sendActive = true) :
    EInv sent (c.flushNow e) ∧ Adds (EP mb mg sent) c (c.flushNow e) := by
  refine ⟨⟨GoodBody.nil _, h.recs.of_chans rfl, flushNow_hinv e c h.hdr⟩, [.out (bitsToBytes (c.packetBits e))], rfl, ?_⟩
  intro ev hev
  simp only [List.mem_singleton] at hev
  subst hev
  intro d hd
  cases hd
  obtain ⟨hh, wf, hN⟩ := finalHeader_wf c h.hdr ha
  refine ⟨e, c.lastSessionId, c.lastClientId, hh, c.sendBody, he, wf, ?_, h.body⟩
  unfold Conn.packetBits; rw [hN]

theorem flush_einv {mb mg : Nat} (sent : List Bunch) (e : Env) (he : e.magicBits = mb ∧ e.magic = mg) (c : Conn) (h : EInv sent c) : EInv sent (c.flush e) ∧ Adds (EP mb mg sent) c (c.flush e) := by
  unfold Conn.flush
  split
  · exact ⟨h, Adds.refl _ _⟩
  · split
    · rename_i hact
      exact flushNow_einv sent e he c h hact
    · obtain ⟨f1, f2⟩ := flushNow_einv sent e he c.startPacket (startPacket_einv sent c h) rfl
      exact ⟨f1, (startPacket_adds (EP mb mg sent) c).trans f2⟩

theorem prepareWrite_einv {mb mg : Nat} (sent : List Bunch) (e : Env) (he : e.magicBits = mb ∧ e.magic = mg) (c : Conn) (n : Nat) (h : EInv sent c) :
    EInv sent (c.prepareWrite e n) ∧ Adds (EP mb mg sent) c (c.prepareWrite e n) := by
  unfold Conn.prepareWrite
  dsimp only
  split
  · obtain ⟨f1, f2⟩ := flush_einv sent e he c h
    split
    · exact ⟨startPacket_einv sent _ f1, f2.trans (startPacket_adds _ _)⟩
    · exact ⟨f1, f2⟩
  · split
    · exact ⟨startPacket_einv sent c h, startPacket_adds _ _⟩
    · exact ⟨h, Adds.refl _ _⟩

/-- the header placeholder was just written or the buffer is active: the body may be extended -/
theorem writeInternal_einv {mb mg : Nat} (sent : List Bunch) (e : Env) (he : e.magicBits = mb ∧ e.magic = mg) (c : Conn) (bits : Bits) (h : EInv sent c) (hb : GoodBody sent bits) :
    EInv sent (c.writeInternal e bits).1 ∧ Adds (EP mb mg sent) c (c.writeInternal e bits).1 := by
  unfold Conn.writeInternal
  dsimp only
  have h1 : EInv sent { c with sendBody := c.sendBody ++ bits } := ⟨h.body.append hb, h.recs.of_chans rfl, h.hdr.same rfl rfl rfl⟩
  have a1 : Adds (EP mb mg sent) c { c with sendBody := c.sendBody ++ bits } := Adds.of_log_eq rfl
  split
  · obtain ⟨f1, f2⟩ := flush_einv sent e he _ h1
    exact ⟨f1, a1.trans f2⟩
  · exact ⟨h1, a1⟩

theorem writeBits_einv {mb mg : Nat} (sent : List Bunch) (e : Env) (he : e.magicBits = mb ∧ e.magic = mg) (c : Conn) (bits : Bits) (h : EInv sent c) (hb : GoodBody sent bits) :
    EInv sent (c.writeBits e bits).1 ∧ Adds (EP mb mg sent) c (c.writeBits e bits).1 := by
  unfold Conn.writeBits
  obtain ⟨p1, p2⟩ := prepareWrite_einv sent e he c bits.length h
  obtain ⟨w1, w2⟩ := writeInternal_einv sent e he _ bits p1 hb
  exact ⟨w1, p2.trans w2⟩

theorem setChan_einv (sent : List Bunch) (c : Conn) (ch : Nat) (x : Channel) (h : EInv sent c) (hx : ChanOKP (GoodN sent) x) : EInv sent (c.setChan ch x) :=
  ⟨h.body, setChan_allOKP c ch x h.recs hx, h.hdr.same rfl rfl rfl⟩

theorem resendNodes_einv {mb mg : Nat} (sent : List Bunch) (e : Env) (he : e.magicBits = mb ∧ e.magic = mg) (ch : Nat) (nodes : List OutNode) : ∀ c : Conn, EInv sent c → (∀ n ∈ nodes, GoodBody sent n.bits) →
    EInv sent (c.resendNodes e ch nodes) ∧ Adds (EP mb mg sent) c (c.resendNodes e ch nodes) := by
  induction nodes with
  | nil => intro c h _; unfold Conn.resendNodes; exact ⟨h, Adds.refl _ _⟩
  | cons n rest ih =>
    intro c h hn
    unfold Conn.resendNodes
    dsimp only
    obtain ⟨w1, w2⟩ := writeBits_einv sent e he c n.bits h (hn n List.mem_cons_self)
    have hstep : EInv sent (match (c.writeBits e n.bits).1.getChan ch with
        | none => (c.writeBits e n.bits).1
        | some x => (c.writeBits e n.bits).1.setChan ch { x with outRec := x.outRec ++ [{ n with packetId := (c.writeBits e n.bits).2 }] }) ∧
        Adds (EP mb mg sent) (c.writeBits e n.bits).1 (match (c.writeBits e n.bits).1.getChan ch with
        | none => (c.writeBits e n.bits).1
        | some x => (c.writeBits e n.bits).1.setChan ch { x with outRec := x.outRec ++ [{ n with packetId := (c.writeBits e n.bits).2 }] }) := by
      split
      · exact ⟨w1, Adds.refl _ _⟩
      · rename_i x hx
        refine ⟨setChan_einv sent _ ch _ w1 ?_, setChan_adds _ _ _ _⟩
        intro m hm
        have hxo := getChan_okP _ ch x w1.recs hx
        simp only [List.mem_append, List.mem_singleton] at hm
        rcases hm with hm | rfl
        · exact hxo m hm
        · exact hn n List.mem_cons_self
    obtain ⟨r1, r2⟩ := ih _ hstep.1 (fun m hm => hn m (List.mem_cons_of_mem _ hm))
    exact ⟨r1, (w2.trans hstep.2).trans r2⟩

theorem onNakChans_einv {mb mg : Nat} (sent : List Bunch) (e : Env) (he : e.magicBits = mb ∧ e.magic = mg) (pid : Int) (chs : List Nat) : ∀ c : Conn, EInv sent c →
    EInv sent (c.onNakChans e pid chs) ∧ Adds (EP mb mg sent) c (c.onNakChans e pid chs) := by
  induction chs with
  | nil => intro c h; exact ⟨h, Adds.refl _ _⟩
  | cons ch rest ih =>
    intro c h
    unfold Conn.onNakChans
    split
    · exact ih c h
    · rename_i x hx
      dsimp only
      have hxo := getChan_okP c ch x h.recs hx
      obtain ⟨s1, s2⟩ := removeOutgoing_subset pid x.outRec
      have h1 : EInv sent (c.setChan ch { x with outRec := (removeOutgoing pid x.outRec).2 }) :=
        setChan_einv sent c ch _ h (fun n hn => hxo n (s2 n hn))
      obtain ⟨r1, r2⟩ := resendNodes_einv sent e he ch (removeOutgoing pid x.outRec).1 _ h1 (fun n hn => hxo n (s1 n hn))
      obtain ⟨i1, i2⟩ := ih _ r1
      exact ⟨i1, ((setChan_adds (EP mb mg sent) c ch _).trans r2).trans i2⟩

theorem foldl_emit_einv {α} (sent : List Bunch) (ev : Event) (l : List α) : ∀ c : Conn, EInv sent c → EInv sent (l.foldl (fun c _ => c.emit ev) c) := by
  induction l with
  | nil => intro c h; exact h
  | cons _ rest ih => intro c h; exact ih _ ⟨h.body, h.recs.of_chans rfl, h.hdr.same rfl rfl rfl⟩

theorem onAckChans_einv (sent : List Bunch) (pid : Int) (chs : List Nat) : ∀ c : Conn, EInv sent c → EInv sent (c.onAckChans pid chs) := by
  induction chs with
  | nil => intro c h; exact h
  | cons ch rest ih =>
    intro c h
    unfold Conn.onAckChans
    split
    · exact ih c h
    · rename_i x hx
      dsimp only
      have hxo := getChan_okP c ch x h.recs hx
      obtain ⟨_, s2⟩ := removeOutgoing_subset pid x.outRec
      have h1 : EInv sent (c.setChan ch { x with outRec := (removeOutgoing pid x.outRec).2 }) :=
        setChan_einv sent c ch _ h (fun n hn => hxo n (s2 n hn))
      exact ih _ (foldl_emit_einv sent _ _ _ h1)

theorem isFreeNode_eP (mb mg : Nat) (sent : List Bunch) (ev : Event) (h : isFreeNode ev) : EP mb mg sent ev := by
  cases ev with
  | out b => simp [isFreeNode] at h
  | _ => intro d hd; cases hd

theorem handleNotification_einv {mb mg : Nat} (sent : List Bunch) (e : Env) (he : e.magicBits = mb ∧ e.magic = mg) (c : Conn) (v : Int × Bool) (h : EInv sent c) :
    EInv sent (c.handleNotification e v) ∧ Adds (EP mb mg sent) c (c.handleNotification e v) := by
  unfold Conn.handleNotification
  dsimp only
  have h0 : EInv sent { c with lastNotified := c.lastNotified + 1 } := ⟨h.body, h.recs.of_chans rfl, h.hdr.same rfl rfl rfl⟩
  have a0 : Adds (EP mb mg sent) c { c with lastNotified := c.lastNotified + 1 } := Adds.of_log_eq rfl
  have hs : ∀ p a, EP mb mg sent (.status p a) := fun p a d hd => by cases hd
  split
  · exact ⟨h0, a0⟩
  · split
    · have h1 : EInv sent { c with lastNotified := c.lastNotified + 1, outAckPacketId := c.lastNotified + 1 } := ⟨h.body, h.recs.of_chans rfl, h.hdr.same rfl rfl rfl⟩
      have hk := onAckChans_einv sent (c.lastNotified + 1) (c.chans.map (·.1)) _ h1
      refine ⟨⟨hk.body, hk.recs.of_chans rfl, hk.hdr.same rfl rfl rfl⟩, ?_⟩
      refine Adds.emit_trans ?_ _ (hs _ _)
      exact (Adds.of_log_eq rfl : Adds (EP mb mg sent) c _).trans ((onAckChans_adds _ _ _).mono (isFreeNode_eP mb mg sent))
    · obtain ⟨n1, n2⟩ := onNakChans_einv sent e he (c.lastNotified + 1) (c.chans.map (·.1)) _ h0
      exact ⟨⟨n1.body, n1.recs.of_chans rfl, n1.hdr.same rfl rfl rfl⟩, (a0.trans n2).emit_trans _ (hs _ _)⟩

theorem notifyUpdate_einv {mb mg : Nat} (sent : List Bunch) (e : Env) (he : e.magicBits = mb ∧ e.magic = mg) (c : Conn) (hd : NotifHeader) (h : EInv sent c) :
    EInv sent (c.notifyUpdate e hd) ∧ Adds (EP mb mg sent) c (c.notifyUpdate e hd) := by
  obtain ⟨h1, h2⟩ := notifyUpdate_core e c hd
  have hb : (c.notifyUpdate e hd).sendBody = (notifyCore e c hd).sendBody := by
    unfold Conn.notifyUpdate notifyCore; dsimp only; split <;> rfl
  have hcore : EInv sent (notifyCore e c hd) ∧ Adds (EP mb mg sent) c (notifyCore e c hd) := by
    unfold notifyCore
    have hfold : ∀ (vs : List (Int × Bool)) (c : Conn), EInv sent c → EInv sent (vs.foldl (Conn.handleNotification e) c) ∧ Adds (EP mb mg sent) c (vs.foldl (Conn.handleNotification e) c) := by
      intro vs
      induction vs with
      | nil => intro c h; exact ⟨h, Adds.refl _ _⟩
      | cons v rest ih =>
        intro c h
        obtain ⟨a1, a2⟩ := handleNotification_einv sent e he c v h
        obtain ⟨b1, b2⟩ := ih _ a1
        exact ⟨b1, a2.trans b2⟩
    split
    · have hu : ∀ k a, (c.notify.updateInAckSeqAck k a).hist = c.notify.hist ∧ (c.notify.updateInAckSeqAck k a).writtenWords = c.notify.writtenWords ∧
          (c.notify.updateInAckSeqAck k a).outSeq = c.notify.outSeq ∧ (c.notify.updateInAckSeqAck k a).inAckSeq = c.notify.inAckSeq := by
        intro k a
        unfold Notify.updateInAckSeqAck
        dsimp only
        split
        · split
          · split <;> exact ⟨rfl, rfl, rfl, rfl⟩
          · exact ⟨rfl, rfl, rfl, rfl⟩
        · exact ⟨rfl, rfl, rfl, rfl⟩
      obtain ⟨u1, u2, u3, u4⟩ := hu (seq_num_diff hd.ackedSeq c.notify.outAckSeq).toNat hd.ackedSeq
      obtain ⟨f1, f2⟩ := hfold _ { c with notify := c.notify.updateInAckSeqAck (seq_num_diff hd.ackedSeq c.notify.outAckSeq).toNat hd.ackedSeq } ⟨h.body, h.recs.of_chans rfl, h.hdr.notify _ u1 u2 u3 u4⟩
      exact ⟨f1, (Adds.of_log_eq rfl : Adds (EP mb mg sent) c _).trans f2⟩
    · exact ⟨h, Adds.refl _ _⟩
  have hfields : (c.notifyUpdate e hd).notify.hist = (notifyCore e c hd).notify.hist ∧ (c.notifyUpdate e hd).notify.writtenWords = (notifyCore e c hd).notify.writtenWords ∧
      (c.notifyUpdate e hd).notify.outSeq = (notifyCore e c hd).notify.outSeq ∧ (c.notifyUpdate e hd).notify.inAckSeq = (notifyCore e c hd).notify.inAckSeq ∧
      (c.notifyUpdate e hd).sendActive = (notifyCore e c hd).sendActive ∧ (c.notifyUpdate e hd).sendNotif = (notifyCore e c hd).sendNotif := by
    unfold Conn.notifyUpdate notifyCore; dsimp only; split <;> exact ⟨rfl, rfl, rfl, rfl, rfl, rfl⟩
  obtain ⟨q1, q2, q3, q4, q5, q6⟩ := hfields
  have hh : HInv (c.notifyUpdate e hd) := by
    have hc := hcore.1.hdr
    refine ⟨by rw [q1]; exact hc.hist, by rw [q3, q4]; exact hc.seqs, fun ha => ?_⟩
    obtain ⟨h0, w1, w2, w3⟩ := hc.enc (by rw [← q5]; exact ha)
    exact ⟨h0, w1, by rw [q6]; exact w2, by rw [q2]; exact w3⟩
  exact ⟨⟨by rw [hb]; exact hcore.1.body, hcore.1.recs.of_chans h1, hh⟩, hcore.2.trans (Adds.of_log_eq h2)⟩

theorem sizeless_pred (mb mg : Nat) (sent : List Bunch) : RecvPred (EP mb mg sent) :=
  ⟨fun k d hd => (by cases hd), fun k d hd => (by cases hd), fun k d hd => (by cases hd), fun g _ _ d hd => (by cases hd)⟩

/-- `ReceivedPacket` on any bit string: retransmissions triggered by NAKs re-send recorded encodings, nothing else is emitted -/
theorem receivedPacket_einv {mb mg : Nat} (sent : List Bunch) (e : Env) (he : e.magicBits = mb ∧ e.magic = mg) (c : Conn) (bits : Bits) (h : EInv sent c) :
    EInv sent (c.receivedPacket e bits).1 ∧ Adds (EP mb mg sent) c (c.receivedPacket e bits).1 := by
  unfold Conn.receivedPacket
  split
  · rename_i reason _
    refine ⟨⟨?_, h.recs.of_chans (markClose_chans _ _), h.hdr.ofSameN (markClose_sameN _ _)⟩, markClose_adds _ _ _⟩
    have : (c.markClose reason).sendBody = c.sendBody := by unfold Conn.markClose; split <;> rfl
    rw [this]; exact h.body
  · rename_i hd rest hdec
    dsimp only
    split
    · exact ⟨h, Adds.refl _ _⟩
    · have h0 : EInv sent ({ c with inPacketId := c.inPacketId + c.notify.deltaSeq hd } : Conn) := ⟨h.body, h.recs.of_chans rfl, h.hdr.same rfl rfl rfl⟩
      obtain ⟨n1, n2⟩ := notifyUpdate_einv sent e he _ hd h0
      generalize ({ c with inPacketId := c.inPacketId + c.notify.deltaSeq hd } : Conn).notifyUpdate e hd = c2 at n1 n2 ⊢
      have hs := bunchLoop_sameN (rest.length + 1) c2 rest false
      have ha := bunchLoop_allOKP (N := GoodN sent) (rest.length + 1) c2 rest false n1.recs
      have hl := bunchLoop_adds (sizeless_pred mb mg sent) (rest.length + 1) c2 rest false
      generalize Conn.bunchLoop (rest.length + 1) c2 rest false = r at hs ha hl ⊢
      obtain ⟨c3, rest', skip⟩ := r
      simp only at hs ha hl ⊢
      have h3 : HInv c3 := n1.hdr.ofSameN hs
      obtain ⟨k1, k2⟩ := ackSeqLoop_fields 16384 c3.notify (seq_num_init (c3.inPacketId % 65536)) (!skip) h3.hist
      obtain ⟨q1, q2⟩ := ackSeqLoop_seqs 16384 c3.notify (seq_num_init (c3.inPacketId % 65536)) (!skip) h3.seqs.2
      have h4 : HInv ({ c3 with notify := c3.notify.ackSeq c3.inPacketId (!skip) } : Conn) := by
        refine ⟨by show (c3.notify.ackSeq _ _).hist.length = 256; unfold Notify.ackSeq; exact k1,
          ⟨by show 0 ≤ (c3.notify.ackSeq _ _).outSeq ∧ (c3.notify.ackSeq _ _).outSeq < 16384; unfold Notify.ackSeq; rw [q1]; exact h3.seqs.1,
           by show 0 ≤ (c3.notify.ackSeq _ _).inAckSeq ∧ (c3.notify.ackSeq _ _).inAckSeq < 16384; unfold Notify.ackSeq; exact q2⟩, fun hx => ?_⟩
        obtain ⟨h0', w1, w2, w3⟩ := h3.enc hx
        exact ⟨h0', w1, w2, by show h0'.words = (c3.notify.ackSeq _ _).writtenWords; unfold Notify.ackSeq; rw [k2]; exact w3⟩
      refine ⟨⟨by show GoodBody sent c3.sendBody; rw [hs.sendBody]; exact n1.body, ha.of_chans rfl, h4⟩, ?_⟩
      exact (((Adds.of_log_eq rfl : Adds (EP mb mg sent) c _).trans n2).trans hl).trans (Adds.of_log_eq rfl)

/-! ### the send API -/

theorem header_some_of_zero (b : Bunch) (s : Int) (h0 : Bits) (h : encodeBunchHeader { b with chSeq := 0 } = some h0) :
    (∃ hh, encodeBunchHeader { b with chSeq := s } = some hh) ∧ (b.bClose = true → b.closeReason < 15) := by
  unfold encodeBunchHeader at h ⊢
  simp only at h ⊢
  split at h
  · simp at h
  · rename_i hc
    refine ⟨?_, ?_⟩
    · simp only [hc, if_false]; exact ⟨_, rfl⟩
    · intro hcl
      have : closeReasonMax = 15 := by decide
      simp [hcl, this] at hc
      exact hc

/-- what a send appends to the send buffer is the encoding of a well-formed bunch that looks like the bunch handed to `send` -/
theorem sent_bits_good (sent : List Bunch) (b : Bunch) (s : Int) (hdr : Bits) (h0 : Bits) (hz : encodeBunchHeader { b with chSeq := 0 } = some h0)
    (hh : encodeBunchHeader { b with chSeq := s } = some hdr) (hch : b.chIndex < 65536) (hlen : b.data.length < 8192) :
    GoodBody ({ b with chSeq := s } :: sent) (hdr ++ b.data) := by
  obtain ⟨_, hcr⟩ := header_some_of_zero b s h0 hz
  refine ⟨[nrm { b with chSeq := s }], ?_, ?_⟩
  · simp only [bodyOf, List.flatMap_cons, List.flatMap_nil, List.append_nil]
    rw [encB_nrm]
    unfold encB encodeBunch
    rw [hh]; rfl
  · intro x hx
    simp only [List.mem_singleton] at hx
    subst hx
    refine ⟨wf_nrm _ hcr hch hlen, { b with chSeq := s }, List.mem_cons_self, ?_, ?_⟩
    · rw [seen_wireView_nrm]
    · intro hr
      have hr' : b.bReliable = true := hr
      show (if b.bReliable = true then s else 0) % 1024 % 1024 = s % 1024
      simp only [hr', if_true]
      omega

theorem sendCommit_einv {mb mg : Nat} (sent : List Bunch) (e : Env) (he : e.magicBits = mb ∧ e.magic = mg) (c : Conn) (b : Bunch) (h0 : Bits) (h : EInv sent c) (hchk : c.sendCheck b = .inr h0) :
    EInv (c.tagged b :: sent) (c.sendCommit e b h0).1 ∧ Adds (EP mb mg (c.tagged b :: sent)) c (c.sendCommit e b h0).1 := by
  obtain ⟨hfit, hchi, henc⟩ := Props.C14.accepted_fits c b h0 hchk
  obtain ⟨_, x', hx', hxo⟩ := sendCommit_chan c b h0 hchk
  have hmono : ∀ x ∈ sent, x ∈ c.tagged b :: sent := fun x hx => List.mem_cons_of_mem _ hx
  have h' : EInv (c.tagged b :: sent) c := h.mono hmono
  generalize htag : c.tagged b = tb at h' ⊢
  unfold Conn.sendCommit
  dsimp only
  have hs1 := (getOrCreateChan_sameN c b false)
  have hs2 := noteClose_sameN (c.getOrCreateChan b false).1 b
  have h1 : EInv (tb :: sent) ((c.getOrCreateChan b false).1.noteClose b) :=
    ⟨by rw [hs2.sendBody, hs1.sendBody]; exact h'.body, noteClose_allOKP _ b (getOrCreateChan_allOKP c b false h'.recs).1, (h'.hdr.ofSameN hs1).ofSameN hs2⟩
  have a1 : Adds (EP mb mg (tb :: sent)) c ((c.getOrCreateChan b false).1.noteClose b) :=
    (getOrCreateChan_adds' (fun k d hd => (by cases hd)) (fun k d hd => (by cases hd)) c b false).trans (noteClose_adds _ _ b)
  generalize (c.getOrCreateChan b false).1.noteClose b = c1 at h1 a1 hx' ⊢
  split
  · exact ⟨h1, a1⟩
  · rename_i x hx
    have hxx : x = x' := by rw [hx'] at hx; exact (Option.some.inj hx).symm
    have hxo' : x.outReliable = c.outRelOf b.chIndex := by rw [hxx]; exact hxo
    have hxo := getChan_okP c1 _ x h1.recs hx
    generalize hseqdef : (if b.bReliable = true then x.outReliable + 1 else 0 : Int) = seq
    have htb : tb = { b with chSeq := seq } := by
      rw [← htag, ← hseqdef]; unfold Conn.tagged Conn.nextSeq; rw [hxo']
    -- the bits appended are a good body
    have hgood : GoodBody (tb :: sent) ((if b.bReliable = true then (encodeBunchHeader { b with chSeq := seq }).getD h0 else h0) ++ b.data) := by
      rw [htb]
      split
      · obtain ⟨⟨hh, hhe⟩, _⟩ := header_some_of_zero b seq h0 henc
        rw [hhe]; simp only [Option.getD_some]
        exact sent_bits_good sent b seq hh h0 henc hhe (by omega) (by omega)
      · rename_i hnr
        have hz : seq = 0 := by rw [← hseqdef]; exact if_neg hnr
        rw [hz]
        exact sent_bits_good sent b 0 h0 h0 henc henc (by omega) (by omega)
    generalize (if b.bReliable = true then (encodeBunchHeader { b with chSeq := seq }).getD h0 else h0) = hdr at hgood ⊢
    have h2 : EInv (tb :: sent) (if b.bReliable = true then c1.setChan b.chIndex { x with outReliable := seq } else c1) := by
      split
      · exact setChan_einv _ c1 _ _ h1 hxo
      · exact h1
    have a2 : Adds (EP mb mg (tb :: sent)) c1 (if b.bReliable = true then c1.setChan b.chIndex { x with outReliable := seq } else c1) := by
      split
      · exact setChan_adds _ _ _ _
      · exact Adds.refl _ _
    generalize (if b.bReliable = true then c1.setChan b.chIndex { x with outReliable := seq } else c1) = c2 at h2 a2 ⊢
    obtain ⟨p1, p2⟩ := prepareWrite_einv (tb :: sent) e he c2 (hdr.length + b.data.length) h2
    obtain ⟨w1, w2⟩ := writeInternal_einv (tb :: sent) e he _ (hdr ++ b.data) p1 hgood
    have atot := ((a1.trans a2).trans p2).trans w2
    split
    · refine ⟨?_, (atot.emit_trans (.alloc .node) (fun d hd => by cases hd)).trans (addOutRec_adds _ _ _ _ _)⟩
      have w1' : EInv (tb :: sent) (((c2.prepareWrite e (hdr.length + b.data.length)).writeInternal e (hdr ++ b.data)).1.emit (.alloc .node)) :=
        ⟨w1.body, w1.recs.of_chans rfl, w1.hdr.same rfl rfl rfl⟩
      unfold Conn.addOutRec
      split
      · exact w1'
      · rename_i x4 hx4
        refine setChan_einv _ _ _ _ w1' ?_
        intro n hn
        simp only [List.mem_append, List.mem_singleton] at hn
        rcases hn with hn | rfl
        · exact getChan_okP _ _ x4 w1'.recs hx4 n hn
        · exact hgood
    · exact ⟨w1, atot⟩

/-- the bunches accepted so far, as the sender numbered them: `utcp_send_bunch` adds `b` if (and only if) it accepts it -/
def Conn.sentAfter (c : Conn) (b : Bunch) (sent : List Bunch) : List Bunch :=
  match c.sendCheck b with
  | .inl _ => sent
  | .inr _ => c.tagged b :: sent

theorem sentAfter_mono (c : Conn) (b : Bunch) (sent : List Bunch) : ∀ x ∈ sent, x ∈ c.sentAfter b sent := by
  intro x hx
  unfold Conn.sentAfter
  split
  · exact hx
  · exact List.mem_cons_of_mem _ hx

/-- **`utcp_send_bunch`**: an accepted bunch joins the set of bunches sent, with the sequence number it was given; a refused one changes
nothing -/
theorem sendBunch_einv {mb mg : Nat} (sent : List Bunch) (e : Env) (he : e.magicBits = mb ∧ e.magic = mg) (c : Conn) (b : Bunch) (h : EInv sent c) :
    EInv (c.sentAfter b sent) (c.sendBunch e b).1 ∧ Adds (EP mb mg (c.sentAfter b sent)) c (c.sendBunch e b).1 := by
  have hraw : EInv (c.sentAfter b sent) (c.sendRaw e b).1 ∧ Adds (EP mb mg (c.sentAfter b sent)) c (c.sendRaw e b).1 := by
    unfold Conn.sendRaw Conn.sentAfter
    cases hchk : c.sendCheck b with
    | inl err => exact ⟨h, Adds.refl _ _⟩
    | inr h0 => exact sendCommit_einv sent e he c b h0 h hchk
  unfold Conn.sendBunch
  generalize c.sendRaw e b = r at hraw ⊢
  obtain ⟨c', rr⟩ := r
  simp only at hraw ⊢
  split <;> exact hraw

/-- periodic work emits nothing and only drops records -/
theorem update_einv {mb mg : Nat} (sent : List Bunch) (e : Env) (he : e.magicBits = mb ∧ e.magic = mg) (c : Conn) (h : EInv sent c) :
    EInv sent (c.checkTimeout e).updateTail.1 ∧ Adds (EP mb mg sent) c (c.checkTimeout e).updateTail.1 := by
  have hne : ∀ ev, SizeOK ev → (∀ d, ev = .out d → False) → EP mb mg sent ev := fun ev _ hno d hd => (hno d hd).elim
  -- every step of `update` keeps the send buffer and only removes channels
  have h1 : EInv sent (c.checkTimeout e) ∧ Adds (EP mb mg sent) c (c.checkTimeout e) := by
    unfold Conn.checkTimeout
    split
    · have hs := markClose_sameN c crConnectionTimeout
      exact ⟨⟨by rw [hs.sendBody]; exact h.body, h.recs.of_chans (markClose_chans _ _), h.hdr.ofSameN hs⟩, markClose_adds _ _ _⟩
    · exact ⟨h, Adds.refl _ _⟩
  have hd : ∀ c : Conn, EInv sent c → EInv sent c.delayClose ∧ Adds (EP mb mg sent) c c.delayClose := by
    intro c h
    unfold Conn.delayClose
    split
    · exact ⟨h, Adds.refl _ _⟩
    · dsimp only
      have hfree : ∀ (c : Conn) (x : Channel), EInv sent c → EInv sent (c.freeChan x) ∧ Adds (EP mb mg sent) c (c.freeChan x) ∧ (c.freeChan x).chans = c.chans := by
        intro c x h
        obtain ⟨e1, e2, e3, e4, e5⟩ := freeChan_effect c x
        have hlogs : Adds (EP mb mg sent) c (c.freeChan x) := by
          unfold Conn.freeChan
          dsimp only
          refine Adds.emit_trans ?_ _ (fun d hd => by cases hd)
          exact (((freeNodes_adds c _).mono (isFreeNode_eP mb mg sent)).trans ((freeNodes_adds _ _).mono (isFreeNode_eP mb mg sent))).trans ((freeNodes_adds _ _).mono (isFreeNode_eP mb mg sent))
        have hbody : (c.freeChan x).sendBody = c.sendBody := by
          unfold Conn.freeChan
          dsimp only
          show (((c.freeNodes _).freeNodes _).freeNodes _).sendBody = _
          rw [(freeNodes_sameN _ _).sendBody, (freeNodes_sameN _ _).sendBody, (freeNodes_sameN _ _).sendBody]
        have hhdr : HInv (c.freeChan x) := by
          unfold Conn.freeChan
          dsimp only
          exact ((((h.hdr.ofSameN (freeNodes_sameN _ _)).ofSameN (freeNodes_sameN _ _)).ofSameN (freeNodes_sameN _ _))).same rfl rfl rfl
        exact ⟨⟨by rw [hbody]; exact h.body, h.recs.of_chans e4, hhdr⟩, hlogs, e4⟩
      have hfold : ∀ (l : List (Nat × Channel)) (c' : Conn), EInv sent c' →
          EInv sent (l.foldl (fun c (p : Nat × Channel) =>
            if !p.2.bClose then c
            else if !p.2.outRec.isEmpty then { c with hasChannelClose := true }
            else { c.freeChan p.2 with chans := c.chans.filter (·.1 != p.1) }) c') ∧
          Adds (EP mb mg sent) c' (l.foldl (fun c (p : Nat × Channel) =>
            if !p.2.bClose then c
            else if !p.2.outRec.isEmpty then { c with hasChannelClose := true }
            else { c.freeChan p.2 with chans := c.chans.filter (·.1 != p.1) }) c') := by
        intro l
        induction l with
        | nil => intro c' h'; exact ⟨h', Adds.refl _ _⟩
        | cons p rest ih =>
          intro c' h'
          simp only [List.foldl_cons]
          split
          · exact ih _ h'
          · split
            · obtain ⟨i1, i2⟩ := ih { c' with hasChannelClose := true } ⟨h'.body, h'.recs.of_chans rfl, h'.hdr.same rfl rfl rfl⟩
              exact ⟨i1, (Adds.of_log_eq rfl : Adds (EP mb mg sent) c' _).trans i2⟩
            · obtain ⟨f1, f2, f3⟩ := hfree c' p.2 h'
              have hs : EInv sent ({ c'.freeChan p.2 with chans := c'.chans.filter (·.1 != p.1) } : Conn) :=
                ⟨f1.body, fun q hq => h'.recs q (List.mem_filter.mp hq).1, f1.hdr.same rfl rfl rfl⟩
              obtain ⟨i1, i2⟩ := ih _ hs
              exact ⟨i1, (f2.trans (Adds.of_log_eq rfl)).trans i2⟩
      obtain ⟨r1, r2⟩ := hfold c.chans.reverse { c with hasChannelClose := false } ⟨h.body, h.recs.of_chans rfl, h.hdr.same rfl rfl rfl⟩
      exact ⟨r1, (Adds.of_log_eq rfl : Adds (EP mb mg sent) c _).trans r2⟩
  obtain ⟨d1, d2⟩ := hd _ h1.1
  unfold Conn.updateTail
  dsimp only
  split
  · exact ⟨d1, h1.2.trans d2⟩
  · exact ⟨⟨d1.body, d1.recs.of_chans rfl, d1.hdr.same rfl rfl rfl⟩, (h1.2.trans d2).emit_trans _ (fun d hd => by cases hd)⟩

theorem fresh_einv (c : Conn) (hb : c.sendBody = []) (hc : c.chans = []) (hh : HInv c) : EInv [] c :=
  ⟨by rw [hb]; exact GoodBody.nil _, by intro p hp; rw [hc] at hp; simp at hp, hh⟩

theorem seqInit_hinv (c : Conn) (i o : Int) (ha : c.sendActive = false) : HInv (c.seqInit i o) := by
  refine ⟨?_, ?_, fun hx => absurd (show c.sendActive = true from hx) (by simp [ha])⟩
  · show (List.replicate histLen false).length = 256
    rw [List.length_replicate]; decide
  · show (0 ≤ seq_num_init (o % 65536) ∧ seq_num_init (o % 65536) < 16384) ∧ (0 ≤ seq_num_init ((i - 1) % 65536) ∧ seq_num_init ((i - 1) % 65536) < 16384)
    simp only [seq_num_init]; omega

end Utcp
