import Utcp.Lemmas.Keeps
import Utcp.Lemmas.Partial
/-!
# What the bunch loop of `ReceivedPacket` appends to the log, for any event predicate that tolerates it

`RecvPred P`: `P` holds of allocator events and of receive callbacks with `1 ≤ count ≤ 256`.  Two instances are used:
`RecvOK` (C09: callback arguments are valid) and `SizeOK` (C18: the bunch loop emits no datagram at all, so in
particular none that is too large).
-/
namespace Utcp
open Gen

structure RecvPred (P : Event → Prop) : Prop where
  free : ∀ k, P (.free k)
  alloc : ∀ k, P (.alloc k)
  realloc : ∀ k, P (.realloc k)
  recv : ∀ g : List Bunch, 1 ≤ g.length → g.length ≤ 256 → P (.recv g)

theorem RecvPred.freeNode {P : Event → Prop} (hP : RecvPred P) (ev : Event) (h : isFreeNode ev) : P ev := by
  cases ev with
  | free k => exact hP.free k
  | _ => simp [isFreeNode] at h

theorem noteClose_adds (P : Event → Prop) (c : Conn) (b : Bunch) : Adds P c (c.noteClose b) := by
  apply Adds.of_log_eq
  unfold Conn.noteClose
  split
  · rfl
  · dsimp only
    have hc : (if (b.chIndex == 0) = true then c.markClose crControlChannelClose else c).log = c.log := by
      split
      · exact markClose_log _ _
      · rfl
    generalize (if (b.chIndex == 0) = true then c.markClose crControlChannelClose else c) = c' at *
    split
    · exact hc
    · exact hc

theorem foldl_noteClose_adds (P : Event → Prop) (g : List Bunch) : ∀ c : Conn, Adds P c (g.foldl Conn.noteClose c) := by
  induction g with
  | nil => intro c; exact Adds.refl _ _
  | cons b rest ih => intro c; exact (noteClose_adds P c b).trans (ih _)

theorem mergePartial_adds (c : Conn) (x : Channel) (b : Bunch) : Adds isFreeNode c (mergePartial c x b).1 := by
  unfold mergePartial mergeInitial mergeNext
  split
  · split
    · exact Adds.refl _ _
    · split
      · exact Adds.refl _ _
      · exact freeNodes_adds _ _
  · split
    · exact Adds.refl _ _
    · split
      · exact Adds.refl _ _
      · split
        · exact Adds.refl _ _
        · exact freeNodes_adds _ _

theorem available_nonempty (c : Conn) (x : Channel) (b : Bunch) (h : (mergePartial c x b).2.2.1 = .available) :
    1 ≤ (mergePartial c x b).2.1.inPartial.length := by
  obtain ⟨_, _, h3, _⟩ := Partial.available_iff c x b h
  rw [h3]; simp

/-- `ReceivedNextBunch`: at most one callback, with `1 ≤ count ≤ 256` (an over-long group is dropped instead) -/
theorem receivedNextBunch_adds {P : Event → Prop} (hP : RecvPred P) (c : Conn) (b : Bunch) : Adds P c (c.receivedNextBunch b).1 := by
  unfold Conn.receivedNextBunch
  have hfree : ∀ (c : Conn) k, Adds P c (c.freeNodes k) := fun c k => (freeNodes_adds c k).mono hP.freeNode
  have hfn : P (.free .node) := hP.free _
  split
  · exact Adds.emit _ _ hfn
  · rename_i x hx
    dsimp only
    split
    · -- partial
      have hm := (mergePartial_adds c (if b.bReliable = true then { x with inReliable := b.chSeq } else x) b).mono hP.freeNode
      generalize hmp : mergePartial c (if b.bReliable = true then { x with inReliable := b.chSeq } else x) b = r at hm
      obtain ⟨c1, x1, res, skip⟩ := r
      simp only at hm ⊢
      have h1 : Adds P c (c1.setChan b.chIndex x1) := hm.trans (setChan_adds _ _ _ _)
      cases res with
      | succeed => exact h1
      | fatal => exact h1.emit_trans _ hfn
      | failed => exact h1.emit_trans _ hfn
      | available =>
        simp only
        split
        · exact (h1.trans (hfree _ _)).trans ((setChan_adds _ _ _ _).trans (markClose_adds _ _ _))
        · rename_i hlen
          have hpos : 1 ≤ x1.inPartial.length := by
            -- an available group contains at least the fragment just merged
            have := available_nonempty c (if b.bReliable = true then { x with inReliable := b.chSeq } else x) b
            rw [hmp] at this
            exact this rfl
          have hrecv : P (.recv x1.inPartial) := by
            have : maxGroup = 256 := by decide
            rw [this] at hlen
            exact hP.recv _ hpos (by omega)
          have h2 := (h1.trans (foldl_noteClose_adds P x1.inPartial _)).emit_trans _ hrecv
          have h3 := h2.trans (hfree _ x1.inPartial.length)
          split
          · exact h3
          · exact h3.trans (setChan_adds _ _ _ _)
    · -- single bunch
      have hrecv : P (.recv [b]) := hP.recv _ (by simp) (by simp)
      exact (((setChan_adds P c _ _).trans (noteClose_adds _ _ _)).emit_trans _ hrecv).emit_trans _ hfn

theorem dispatchWaiting_adds {P : Event → Prop} (hP : RecvPred P) (fuel : Nat) : ∀ (c : Conn) (ch : Nat), Adds P c (Conn.dispatchWaiting fuel c ch) := by
  induction fuel with
  | zero => intro c ch; exact Adds.refl _ _
  | succ f ih =>
    intro c ch
    unfold Conn.dispatchWaiting
    split
    · exact Adds.refl _ _
    · split
      · exact Adds.refl _ _
      · split
        · exact Adds.refl _ _
        · dsimp only
          exact ((setChan_adds _ c ch _).trans (receivedNextBunch_adds hP _ _)).trans (ih _ _)

theorem createChan_adds {P : Event → Prop} (hP : RecvPred P) (c : Conn) (ch : Nat) : Adds P c (c.createChan ch) := by
  unfold Conn.createChan
  have ha : ∀ k, P (.alloc k) := hP.alloc
  have hr : ∀ k, P (.realloc k) := hP.realloc
  dsimp only
  refine Adds.trans ?_ (setChan_adds _ _ _ _)
  split
  · exact Adds.emit _ _ (ha _)
  · split
    · exact (Adds.emit c _ (ha .chan)).trans (Adds.emit _ _ (ha _))
    · exact (Adds.emit c _ (ha .chan)).trans (Adds.emit _ _ (hr _))

theorem getOrCreateChan_adds {P : Event → Prop} (hP : RecvPred P) (c : Conn) (b : Bunch) (inc : Bool) : Adds P c (c.getOrCreateChan b inc).1 := by
  unfold Conn.getOrCreateChan
  split
  · exact Adds.refl _ _
  · split
    · exact createChan_adds hP c _
    · exact Adds.refl _ _

theorem processBunch_adds {P : Event → Prop} (hP : RecvPred P) (c : Conn) (x : Channel) (b : Bunch) : Adds P c (c.processBunch x b).1 := by
  have hf : ∀ k, P (.free k) := hP.free
  unfold Conn.processBunch
  split
  · exact Adds.emit _ _ (hf _)
  · split
    · split
      · exact Adds.emit _ _ (hf _)
      · split
        · exact setChan_adds _ _ _ _
        · exact Adds.emit _ _ (hf _)
    · exact receivedNextBunch_adds hP _ _

theorem dispatchAll_adds {P : Event → Prop} (hP : RecvPred P) (c : Conn) (ch : Nat) : Adds P c (c.dispatchAll ch) := dispatchWaiting_adds hP _ _ _

/-- `ReceivedRawBunch` on any remaining bits -/
theorem receivedRawBunch_adds {P : Event → Prop} (hP : RecvPred P) (c : Conn) (bits : Bits) : Adds P c (c.receivedRawBunch bits).1 := by
  have ha : ∀ k, P (.alloc k) := hP.alloc
  have hf : ∀ k, P (.free k) := hP.free
  unfold Conn.receivedRawBunch
  dsimp only
  have h0 : Adds P c (c.emit (.alloc .node)) := Adds.emit _ _ (ha _)
  split
  · exact (h0.trans (markClose_adds _ _ _)).emit_trans _ (hf _)
  · split
    · exact (h0.trans (markClose_adds _ _ _)).emit_trans _ (hf _)
    · split
      · exact (h0.trans (getOrCreateChan_adds hP _ _ _)).emit_trans _ (hf _)
      · exact ((h0.trans (getOrCreateChan_adds hP _ _ _)).trans (processBunch_adds hP _ _ _)).trans (dispatchAll_adds hP _ _)

theorem bunchLoop_adds {P : Event → Prop} (hP : RecvPred P) (fuel : Nat) : ∀ (c : Conn) (bits : Bits) (skip : Bool), Adds P c (Conn.bunchLoop fuel c bits skip).1 := by
  induction fuel with
  | zero => intro c bits skip; exact Adds.refl _ _
  | succ f ih =>
    intro c bits skip
    unfold Conn.bunchLoop
    split
    · exact Adds.refl _ _
    · exact (receivedRawBunch_adds hP c bits).trans (ih _ _ _)

end Utcp
