import Utcp.Props.C15
/-! The send stamp across every operation: unchanged, or the clock of the step (`LS`), with the connected flag kept. -/
namespace Utcp.Props.C15
open Utcp Utcp.Gen

/-- across a step at clock `e`: still (dis)connected as before, and the send stamp is the old one or the clock of the step -/
def LS (e : Env) (c c' : Conn) : Prop := c'.connected = c.connected ∧ (c'.lastSendMs = c.lastSendMs ∨ c'.lastSendMs = e.nowMs)

theorem LS.refl (e : Env) (c : Conn) : LS e c c := ⟨rfl, Or.inl rfl⟩
theorem LS.trans {e : Env} {a b c : Conn} (h1 : LS e a b) (h2 : LS e b c) : LS e a c :=
  ⟨h2.1.trans h1.1, by rcases h2.2 with h | h; rcases h1.2 with g | g; exact Or.inl (h.trans g); exact Or.inr (h.trans g); exact Or.inr h⟩
theorem LS.of_sameN {e : Env} {c c' : Conn} (h : SameN c c') : LS e c c' := ⟨h.connected, Or.inl h.lastSendMs⟩
theorem LS.of_eq {e : Env} {c c' : Conn} (h1 : c'.connected = c.connected) (h2 : c'.lastSendMs = c.lastSendMs) : LS e c c' := ⟨h1, Or.inl h2⟩

theorem flush_ls (e : Env) (c : Conn) : LS e c (c.flush e) := by
  unfold Conn.flush
  split
  · exact LS.refl e c
  · split
    · exact ⟨rfl, Or.inr rfl⟩
    · exact ⟨rfl, Or.inr rfl⟩

theorem prepareWrite_ls (e : Env) (c : Conn) (n : Nat) : LS e c (c.prepareWrite e n) := by
  unfold Conn.prepareWrite
  dsimp only
  split
  · split
    · exact (flush_ls e c).trans (LS.of_eq rfl rfl)
    · exact flush_ls e c
  · split
    · exact LS.of_eq rfl rfl
    · exact LS.refl e c

theorem writeInternal_ls (e : Env) (c : Conn) (bits : Bits) : LS e c (c.writeInternal e bits).1 := by
  unfold Conn.writeInternal
  dsimp only
  have h0 : LS e c { c with sendBody := c.sendBody ++ bits } := LS.of_eq rfl rfl
  split
  · exact h0.trans (flush_ls e _)
  · exact h0

theorem writeBits_ls (e : Env) (c : Conn) (bits : Bits) : LS e c (c.writeBits e bits).1 := by
  unfold Conn.writeBits
  exact (prepareWrite_ls e c _).trans (writeInternal_ls e _ bits)

theorem resendNodes_ls (e : Env) (ch : Nat) (nodes : List OutNode) : ∀ c : Conn, LS e c (c.resendNodes e ch nodes) := by
  induction nodes with
  | nil => intro c; exact LS.refl e c
  | cons n rest ih =>
    intro c
    unfold Conn.resendNodes
    dsimp only
    refine (writeBits_ls e c n.bits).trans ?_
    refine LS.trans ?_ (ih _)
    split
    · exact LS.refl e _
    · exact LS.of_eq rfl rfl

theorem onNakChans_ls (e : Env) (pid : Int) (chs : List Nat) : ∀ c : Conn, LS e c (c.onNakChans e pid chs) := by
  induction chs with
  | nil => intro c; exact LS.refl e c
  | cons ch rest ih =>
    intro c
    unfold Conn.onNakChans
    split
    · exact ih c
    · dsimp only
      exact ((LS.of_eq rfl rfl : LS e c (c.setChan ch _)).trans (resendNodes_ls e ch _ _)).trans (ih _)

theorem foldl_emit_ls {α} (e : Env) (ev : Event) (l : List α) : ∀ c : Conn, LS e c (l.foldl (fun c _ => c.emit ev) c) := by
  induction l with
  | nil => intro c; exact LS.refl e c
  | cons _ rest ih => intro c; exact (LS.of_eq rfl rfl : LS e c (c.emit ev)).trans (ih _)

theorem onAckChans_ls (e : Env) (pid : Int) (chs : List Nat) : ∀ c : Conn, LS e c (c.onAckChans pid chs) := by
  induction chs with
  | nil => intro c; exact LS.refl e c
  | cons ch rest ih =>
    intro c
    unfold Conn.onAckChans
    split
    · exact ih c
    · dsimp only
      exact ((LS.of_eq rfl rfl : LS e c (c.setChan ch _)).trans (foldl_emit_ls e _ _ _)).trans (ih _)

theorem handleNotification_ls (e : Env) (c : Conn) (v : Int × Bool) : LS e c (c.handleNotification e v) := by
  unfold Conn.handleNotification
  dsimp only
  split
  · exact LS.of_eq rfl rfl
  · split
    · exact ((LS.of_eq rfl rfl : LS e c ({ c with lastNotified := c.lastNotified + 1, outAckPacketId := c.lastNotified + 1 } : Conn)).trans
        (onAckChans_ls e _ _ _)).trans (LS.of_eq rfl rfl)
    · exact ((LS.of_eq rfl rfl : LS e c ({ c with lastNotified := c.lastNotified + 1 } : Conn)).trans (onNakChans_ls e _ _ _)).trans (LS.of_eq rfl rfl)

theorem notifyUpdate_ls (e : Env) (c : Conn) (h : NotifHeader) : LS e c (c.notifyUpdate e h) := by
  have hcore : LS e (notifyCore e c h) (c.notifyUpdate e h) := by
    unfold Conn.notifyUpdate notifyCore; dsimp only; split <;> exact LS.of_eq rfl rfl
  refine LS.trans ?_ hcore
  unfold notifyCore
  have hfold : ∀ (vs : List (Int × Bool)) (c : Conn), LS e c (vs.foldl (Conn.handleNotification e) c) := by
    intro vs
    induction vs with
    | nil => intro c; exact LS.refl e c
    | cons v rest ih => intro c; exact (handleNotification_ls e c v).trans (ih _)
  split
  · exact (LS.of_eq rfl rfl : LS e c _).trans (hfold _ _)
  · exact LS.refl e c

theorem receivedPacket_ls (e : Env) (c : Conn) (bits : Bits) : LS e c (c.receivedPacket e bits).1 := by
  unfold Conn.receivedPacket
  split
  · unfold Conn.markClose; split <;> exact LS.of_eq rfl rfl
  · rename_i hd rest hdec
    dsimp only
    split
    · exact LS.refl e c
    · have h2 := notifyUpdate_ls e ({ c with inPacketId := c.inPacketId + c.notify.deltaSeq hd } : Conn) hd
      have h3 := bunchLoop_sameN (rest.length + 1) (({ c with inPacketId := c.inPacketId + c.notify.deltaSeq hd } : Conn).notifyUpdate e hd) rest false
      generalize Conn.bunchLoop (rest.length + 1) (({ c with inPacketId := c.inPacketId + c.notify.deltaSeq hd } : Conn).notifyUpdate e hd) rest false = r at h3 ⊢
      obtain ⟨c3, rest', skip⟩ := r
      exact ((LS.of_eq rfl rfl : LS e c _).trans h2).trans ((LS.of_sameN h3).trans (LS.of_eq rfl rfl))

end Utcp.Props.C15

namespace Utcp.Props.C15
open Utcp Utcp.Gen

theorem sendBunch_ls (e : Env) (c : Conn) (b : Bunch) : LS e c (c.sendBunch e b).1 := by
  have hraw : LS e c (c.sendRaw e b).1 := by
    unfold Conn.sendRaw
    split
    · exact LS.refl e c
    · unfold Conn.sendCommit
      dsimp only
      have h1 : LS e c ((c.getOrCreateChan b false).1.noteClose b) :=
        (LS.of_sameN (getOrCreateChan_sameN c b false)).trans (LS.of_sameN (noteClose_sameN _ b))
      generalize (c.getOrCreateChan b false).1.noteClose b = c1 at h1 ⊢
      split
      · exact h1
      · rename_i x hx
        generalize (if b.bReliable = true then x.outReliable + 1 else 0 : Int) = seq
        generalize (if b.bReliable = true then (encodeBunchHeader { b with chSeq := seq }).getD _ else _) = hdr
        have h2 : LS e c (if b.bReliable = true then c1.setChan b.chIndex { x with outReliable := seq } else c1) := by
          split
          · exact h1.trans (LS.of_eq rfl rfl)
          · exact h1
        generalize (if b.bReliable = true then c1.setChan b.chIndex { x with outReliable := seq } else c1) = c2 at h2 ⊢
        have h4 : LS e c ((c2.prepareWrite e (hdr.length + b.data.length)).writeInternal e (hdr ++ b.data)).1 :=
          (h2.trans (prepareWrite_ls e c2 _)).trans (writeInternal_ls e _ _)
        split
        · unfold Conn.addOutRec
          split
          · exact h4.trans (LS.of_eq rfl rfl)
          · exact h4.trans (LS.of_eq rfl rfl)
        · exact h4
  unfold Conn.sendBunch
  generalize c.sendRaw e b = r at hraw ⊢
  obtain ⟨c', rr⟩ := r
  simp only at hraw ⊢
  split <;> exact hraw

theorem updateTail_ls (e : Env) (c : Conn) : LS e c c.updateTail.1 := by
  have hd : LS e c c.delayClose := by
    unfold Conn.delayClose
    split
    · exact LS.refl e c
    · dsimp only
      have hfree : ∀ (c : Conn) (x : Channel), LS e c (c.freeChan x) := by
        intro c x
        unfold Conn.freeChan
        dsimp only
        exact (((LS.of_sameN (freeNodes_sameN c _)).trans (LS.of_sameN (freeNodes_sameN _ _))).trans (LS.of_sameN (freeNodes_sameN _ _))).trans (LS.of_eq rfl rfl)
      have hfold : ∀ (l : List (Nat × Channel)) (c' : Conn),
          LS e c' (l.foldl (fun c (p : Nat × Channel) =>
            if !p.2.bClose then c
            else if !p.2.outRec.isEmpty then { c with hasChannelClose := true }
            else { c.freeChan p.2 with chans := c.chans.filter (·.1 != p.1) }) c') := by
        intro l
        induction l with
        | nil => intro c'; exact LS.refl e c'
        | cons p rest ih =>
          intro c'
          simp only [List.foldl_cons]
          split
          · exact ih _
          · split
            · exact (LS.of_eq rfl rfl : LS e c' _).trans (ih _)
            · exact ((hfree c' p.2).trans (LS.of_eq rfl rfl)).trans (ih _)
      exact (LS.of_eq rfl rfl : LS e c _).trans (hfold _ _)
  unfold Conn.updateTail
  dsimp only
  split
  · exact hd.trans (LS.of_eq rfl rfl)
  · exact hd.trans (LS.of_eq rfl rfl)

end Utcp.Props.C15
