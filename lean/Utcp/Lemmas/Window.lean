import Utcp.Lemmas.Origin
import Utcp.Lemmas.OutSeq
/-!
# Where the receive counters can be (receiver side)

For one channel `ch` and bounds `lo ≤ hi`: `WInv Q ch lo hi c` says that every channel's `InReliable` is at least `lo` (the initial
value), that channel `ch`'s is at most `hi`, that the reliable fragments being assembled were numbered above `lo`, and that every
queued bunch sits in its own channel's queue and satisfies `Q`.  `Q` is any stable predicate (`QStable`) whose reliable members on
channel `ch` *fit*: taken as the successor of a counter in `[lo, hi]` they do not leave `[lo, hi]` (`Fits`).  Then `ReceivedPacket`
on a body of encodings of bunches satisfying `Q` keeps the invariant, and every reliable bunch delivered was numbered above `lo`
(`WP`).
-/
namespace Utcp
open Gen Partial

def Fits (ch : Nat) (lo hi : Int) (b : Bunch) : Prop :=
  b.bReliable = true → b.chIndex = ch → ∀ r, lo ≤ r → r ≤ hi → b.chSeq = r + 1 → b.chSeq ≤ hi

structure WC (Q : Bunch → Prop) (ch : Nat) (lo hi : Int) (ch' : Nat) (x : Channel) : Prop where
  low : lo ≤ x.inReliable
  part : ∀ f ∈ x.inPartial, f.bReliable = true → lo < f.chSeq
  high : ch' = ch → x.inReliable ≤ hi
  queue : ∀ q ∈ x.inRec, q.chIndex = ch' ∧ Q q

structure WInv (Q : Bunch → Prop) (ch : Nat) (lo hi : Int) (c : Conn) : Prop where
  init : c.initInReliable = lo
  le : lo ≤ hi
  chans : ∀ ch' x, c.getChan ch' = some x → WC Q ch lo hi ch' x

def WP (lo : Int) (ev : Event) : Prop := ∀ g, ev = .recv g → ∀ q ∈ g, q.bReliable = true → lo < q.chSeq

variable {Q : Bunch → Prop} {ch : Nat} {lo hi : Int}

theorem wP_of_not_recv (lo : Int) (ev : Event) (h : isRecv ev = false) : WP lo ev := by
  intro g hg; subst hg; simp [isRecv] at h

theorem WInv.of_chans {c c' : Conn} (h : WInv Q ch lo hi c) (hc : c'.chans = c.chans) (hi' : c'.initInReliable = c.initInReliable := by rfl) :
    WInv Q ch lo hi c' :=
  ⟨hi'.trans h.init, h.le, fun ch' x hx => h.chans ch' x (by unfold Conn.getChan at hx ⊢; rw [← hc]; exact hx)⟩

theorem setChan_w (c : Conn) (ch' : Nat) (x : Channel) (h : WInv Q ch lo hi c) (hx : WC Q ch lo hi ch' x) : WInv Q ch lo hi (c.setChan ch' x) := by
  refine ⟨h.init, h.le, ?_⟩
  intro ch2 x2 hx2
  by_cases he : ch2 = ch'
  · subst he; rw [getChan_setChan_self] at hx2; cases hx2; exact hx
  · rw [getChan_setChan_other _ _ _ _ he] at hx2; exact h.chans ch2 x2 hx2

/-- a step that leaves the receive side of every channel alone -/
theorem WInv.of_rsame {c c' : Conn} (h : WInv Q ch lo hi c) (hs : RSame c c') (hi' : c'.initInReliable = c.initInReliable) : WInv Q ch lo hi c' := by
  refine ⟨hi'.trans h.init, h.le, ?_⟩
  intro ch' x' hx'
  have := hs.chan ch'
  rw [hx'] at this
  cases hx : c.getChan ch' with
  | none => rw [hx] at this; simp at this
  | some x =>
    rw [hx] at this
    simp only [Option.map_some, Option.some.injEq] at this
    have h1 : x'.inPartial = x.inPartial := congrArg (·.1) this
    have h2 : x'.inRec = x.inRec := congrArg (·.2.1) this
    have h3 : x'.inReliable = x.inReliable := congrArg (·.2.2) this
    have hw := h.chans ch' x hx
    exact ⟨by rw [h3]; exact hw.low, by rw [h1]; exact hw.part, by rw [h3]; exact hw.high, by rw [h2]; exact hw.queue⟩

theorem mergePartial_w (c : Conn) (x1 : Channel) (b : Bunch) (ch' : Nat) (hx : WC Q ch lo hi ch' x1) (hb : b.bReliable = true → lo < b.chSeq) :
    WC Q ch lo hi ch' (mergePartial c x1 b).2.1 := by
  unfold mergePartial mergeInitial mergeNext
  have single : WC Q ch lo hi ch' { x1 with inPartial := [b] } :=
    ⟨hx.low, by intro f hf; simp at hf; subst hf; exact hb, hx.high, hx.queue⟩
  have cleared : WC Q ch lo hi ch' { x1 with inPartial := [] } := ⟨hx.low, by intro f hf; simp at hf, hx.high, hx.queue⟩
  split
  · split
    · exact single
    · split
      · exact hx
      · exact single
  · split
    · exact hx
    · split
      · refine ⟨hx.low, ?_, hx.high, hx.queue⟩
        intro f hf
        simp only [List.mem_append, List.mem_singleton] at hf
        rcases hf with hf | rfl
        · exact hx.part f hf
        · exact hb
      · split
        · exact hx
        · exact cleared

theorem noteClose_initIn (c : Conn) (b : Bunch) : (c.noteClose b).initInReliable = c.initInReliable := (noteClose_osame c b).initIn
theorem foldl_noteClose_initIn (g : List Bunch) (c : Conn) : (g.foldl Conn.noteClose c).initInReliable = c.initInReliable := (foldl_noteClose_osame g c).initIn

/-- `ReceivedNextBunch` for a bunch that fits and is the next one of its channel -/
theorem receivedNextBunch_w (c : Conn) (b : Bunch) (h : WInv Q ch lo hi c) (hF : Fits ch lo hi b)
    (hn : ∀ x, c.getChan b.chIndex = some x → b.bReliable = true → b.chSeq = x.inReliable + 1) :
    WInv Q ch lo hi (c.receivedNextBunch b).1 ∧ Adds (WP lo) c (c.receivedNextBunch b).1 := by
  have hfn : WP lo (.free .node) := wP_of_not_recv lo _ rfl
  have hfree : ∀ (c : Conn) k, Adds (WP lo) c (c.freeNodes k) := fun c k =>
    (freeNodes_adds c k).mono (fun ev hev => wP_of_not_recv lo ev (isFreeNode_not_recv ev hev))
  unfold Conn.receivedNextBunch
  split
  · exact ⟨h.of_chans rfl, Adds.emit _ _ hfn⟩
  · rename_i x0 hx0
    have hw0 := h.chans _ x0 hx0
    have hnx := hn x0 hx0
    dsimp only
    have hbl : b.bReliable = true → lo < b.chSeq := by
      intro hr; have := hnx hr; have := hw0.low; omega
    have hw1 : WC Q ch lo hi b.chIndex (if b.bReliable = true then { x0 with inReliable := b.chSeq } else x0) := by
      split
      · rename_i hr
        refine ⟨by have := hbl hr; show lo ≤ b.chSeq; omega, hw0.part, ?_, hw0.queue⟩
        intro hch
        exact hF hr hch x0.inReliable hw0.low (hw0.high hch) (hnx hr)
      · exact hw0
    generalize (if b.bReliable = true then { x0 with inReliable := b.chSeq } else x0) = x1 at hw1 ⊢
    split
    · have hmw := mergePartial_w c x1 b b.chIndex hw1 hbl
      have hmc := mergePartial_chans c x1 b
      have hmi := (mergePartial_osame c x1 b).initIn
      have hma := (mergePartial_adds c x1 b).mono (fun ev hev => wP_of_not_recv lo ev (isFreeNode_not_recv ev hev))
      generalize mergePartial c x1 b = r at hmw hmc hmi hma ⊢
      obtain ⟨c1, x2, res, skip⟩ := r
      simp only at hmw hmc hmi hma ⊢
      have g2 : WInv Q ch lo hi (c1.setChan b.chIndex x2) := setChan_w _ _ _ (h.of_chans hmc hmi) hmw
      have a2 : Adds (WP lo) c (c1.setChan b.chIndex x2) := hma.trans (setChan_adds _ _ _ _)
      cases res with
      | succeed => exact ⟨g2, a2⟩
      | fatal => exact ⟨g2.of_chans rfl, a2.emit_trans _ hfn⟩
      | failed => exact ⟨g2.of_chans rfl, a2.emit_trans _ hfn⟩
      | available =>
        simp only
        split
        · refine ⟨(setChan_w _ b.chIndex { x2 with inPartial := [] } (g2.of_chans (freeNodes_chans' _ _) (freeNodes_init _ _).2)
            ⟨hmw.low, by intro q hq; simp at hq, hmw.high, hmw.queue⟩).of_chans (markClose_chans _ _) (markClose_osame _ _).initIn, ?_⟩
          exact (a2.trans (hfree _ _)).trans ((setChan_adds _ _ _ _).trans (markClose_adds _ _ _))
        · have hok : WP lo (.recv x2.inPartial) := by
            intro g hg; cases hg; exact hmw.part
          have hrs := foldl_noteClose_rsame x2.inPartial (c1.setChan b.chIndex x2)
          have g3 : WInv Q ch lo hi (((x2.inPartial.foldl Conn.noteClose (c1.setChan b.chIndex x2)).emit (.recv x2.inPartial)).freeNodes x2.inPartial.length) :=
            ((g2.of_rsame hrs (foldl_noteClose_initIn _ _)).of_chans rfl :
              WInv Q ch lo hi ((x2.inPartial.foldl Conn.noteClose (c1.setChan b.chIndex x2)).emit (.recv x2.inPartial))).of_chans (freeNodes_chans' _ _) (freeNodes_init _ _).2
          have a3 : Adds (WP lo) c (((x2.inPartial.foldl Conn.noteClose (c1.setChan b.chIndex x2)).emit (.recv x2.inPartial)).freeNodes x2.inPartial.length) :=
            ((a2.trans (foldl_noteClose_adds (WP lo) x2.inPartial _)).emit_trans _ hok).trans (hfree _ _)
          split
          · exact ⟨g3, a3⟩
          · rename_i x5 hx5
            have hw5 := g3.chans _ x5 hx5
            exact ⟨setChan_w _ _ _ g3 ⟨hw5.low, by intro q hq; simp at hq, hw5.high, hw5.queue⟩, a3.trans (setChan_adds _ _ _ _)⟩
    · have hok : WP lo (.recv [b]) := by
        intro g hg; cases hg
        intro q hq hr; simp at hq; subst hq; exact hbl hr
      have g1 : WInv Q ch lo hi (c.setChan b.chIndex x1) := setChan_w _ _ _ h hw1
      refine ⟨((g1.of_rsame (noteClose_rsame _ b) (noteClose_initIn _ _)).of_chans rfl :
          WInv Q ch lo hi (((c.setChan b.chIndex x1).noteClose b).emit (.recv [b]))).of_chans rfl, ?_⟩
      exact (((setChan_adds (WP lo) c _ _).trans (noteClose_adds _ _ _)).emit_trans _ hok).emit_trans _ hfn

theorem dispatchWaiting_w (hQF : ∀ b, Q b → Fits ch lo hi b) (fuel : Nat) : ∀ (c : Conn) (ch' : Nat), WInv Q ch lo hi c →
    WInv Q ch lo hi (Conn.dispatchWaiting fuel c ch') ∧ Adds (WP lo) c (Conn.dispatchWaiting fuel c ch') := by
  induction fuel with
  | zero => intro c ch' h; exact ⟨h, Adds.refl _ _⟩
  | succ f ih =>
    intro c ch' h
    unfold Conn.dispatchWaiting
    split
    · exact ⟨h, Adds.refl _ _⟩
    · rename_i x hx
      have hw := h.chans ch' x hx
      split
      · exact ⟨h, Adds.refl _ _⟩
      · rename_i b rest hrec
        split
        · exact ⟨h, Adds.refl _ _⟩
        · rename_i hseq
          dsimp only
          have hb := hw.queue b (by rw [hrec]; exact List.mem_cons_self)
          have g1 : WInv Q ch lo hi (c.setChan ch' { x with inRec := rest }) :=
            setChan_w c ch' _ h ⟨hw.low, hw.part, hw.high, fun q hq' => hw.queue q (by rw [hrec]; exact List.mem_cons_of_mem _ hq')⟩
          obtain ⟨r1, r2⟩ := receivedNextBunch_w _ b g1 (hQF b hb.2) (by
            intro x' hx' _
            rw [hb.1, getChan_setChan_self] at hx'
            cases hx'
            simp only
            simpa using hseq)
          obtain ⟨i1, i2⟩ := ih _ ch' r1
          exact ⟨i1, ((setChan_adds _ c ch' _).trans r2).trans i2⟩

theorem createChan_w (c : Conn) (ch' : Nat) (h : WInv Q ch lo hi c) : WInv Q ch lo hi (c.createChan ch') := by
  unfold Conn.createChan
  dsimp only
  have key : ∀ c1 : Conn, c1.chans = c.chans → c1.initInReliable = c.initInReliable →
      WInv Q ch lo hi (c1.setChan ch' { inReliable := c1.initInReliable, outReliable := c1.initOutReliable }) := by
    intro c1 h1 h2
    refine setChan_w _ _ _ (h.of_chans h1 h2) ⟨?_, by intro f hf; simp at hf, ?_, by intro q hq; simp at hq⟩
    · show lo ≤ c1.initInReliable; rw [h2, h.init]; exact Int.le_refl _
    · intro _; show c1.initInReliable ≤ hi; rw [h2, h.init]; exact h.le
  split
  · exact key _ rfl rfl
  · split
    · exact key _ rfl rfl
    · exact key _ rfl rfl

theorem getOrCreateChan_w (c : Conn) (b : Bunch) (inc : Bool) (h : WInv Q ch lo hi c) : WInv Q ch lo hi (c.getOrCreateChan b inc).1 := by
  unfold Conn.getOrCreateChan
  split
  · exact h
  · split
    · exact createChan_w c b.chIndex h
    · exact h

theorem processBunch_w (hQF : ∀ b, Q b → Fits ch lo hi b) (c : Conn) (x : Channel) (b : Bunch) (h : WInv Q ch lo hi c)
    (hx : c.getChan b.chIndex = some x) (hb : Q b) :
    WInv Q ch lo hi (c.processBunch x b).1 ∧ Adds (WP lo) c (c.processBunch x b).1 := by
  have hf : ∀ k, WP lo (.free k) := fun k => wP_of_not_recv lo _ rfl
  have hw := h.chans _ x hx
  unfold Conn.processBunch
  split
  · exact ⟨h.of_chans rfl, Adds.emit _ _ (hf _)⟩
  · rename_i hold
    split
    · split
      · exact ⟨h.of_chans rfl, Adds.emit _ _ (hf _)⟩
      · split
        · rename_i q hq
          refine ⟨setChan_w _ _ _ h ⟨hw.low, hw.part, hw.high, ?_⟩, setChan_adds _ _ _ _⟩
          intro y hy
          rcases enqueue_mem' b x.inRec q hq y hy with rfl | hy
          · exact ⟨rfl, hb⟩
          · exact hw.queue y hy
        · exact ⟨h.of_chans rfl, Adds.emit _ _ (hf _)⟩
    · rename_i hnext
      refine receivedNextBunch_w c b h (hQF b hb) ?_
      intro x' hx' hrel
      rw [hx] at hx'; cases hx'
      simp only [hrel, Bool.true_and, decide_eq_true_eq, bne_iff_ne, ne_eq, Decidable.not_not] at hold hnext
      exact hnext

/-- `ReceivedRawBunch`, provided whatever it decodes from these bits satisfies `Q` -/
theorem receivedRawBunch_w (hQ : QStable Q) (hQF : ∀ b, Q b → Fits ch lo hi b) (c : Conn) (bits : Bits) (h : WInv Q ch lo hi c)
    (hdec : ∀ b rest, decodeBunch bits = .ok b rest → Q b) :
    WInv Q ch lo hi (c.receivedRawBunch bits).1 ∧ Adds (WP lo) c (c.receivedRawBunch bits).1 := by
  have ha : ∀ k, WP lo (.alloc k) := fun k => wP_of_not_recv lo _ rfl
  have hf : ∀ k, WP lo (.free k) := fun k => wP_of_not_recv lo _ rfl
  have hr : ∀ k, WP lo (.realloc k) := fun k => wP_of_not_recv lo _ rfl
  unfold Conn.receivedRawBunch
  dsimp only
  have g0 : WInv Q ch lo hi (c.emit (.alloc .node)) := h.of_chans rfl
  have a0 : Adds (WP lo) c (c.emit (.alloc .node)) := Adds.emit _ _ (ha _)
  split
  · exact ⟨(g0.of_chans (markClose_chans _ _) (markClose_osame _ _).initIn : WInv Q ch lo hi ((c.emit (.alloc .node)).markClose crBunchOverflow)).of_chans rfl,
      (a0.trans (markClose_adds _ _ _)).emit_trans _ (hf _)⟩
  · rename_i b rest hd
    have hb : Q b := hdec b rest hd
    split
    · exact ⟨(g0.of_chans (markClose_chans _ _) (markClose_osame _ _).initIn : WInv Q ch lo hi ((c.emit (.alloc .node)).markClose crBunchBadChannelIndex)).of_chans rfl,
        (a0.trans (markClose_adds _ _ _)).emit_trans _ (hf _)⟩
    · have g1 := getOrCreateChan_w (c.emit (.alloc .node)) { b with packetId := (c.emit (.alloc .node)).inPacketId } true g0
      have g2 := getOrCreateChan_get (c.emit (.alloc .node)) { b with packetId := (c.emit (.alloc .node)).inPacketId } true
      have a1 : Adds (WP lo) c ((c.emit (.alloc .node)).getOrCreateChan { b with packetId := (c.emit (.alloc .node)).inPacketId } true).1 :=
        a0.trans (getOrCreateChan_adds' ha hr _ _ _)
      split
      · exact ⟨g1.of_chans rfl, a1.emit_trans _ (hf _)⟩
      · rename_i x hx
        have hb' : Q (absSeq ((c.emit (.alloc .node)).getOrCreateChan { b with packetId := (c.emit (.alloc .node)).inPacketId } true).1 x { b with packetId := (c.emit (.alloc .node)).inPacketId }) := by
          unfold absSeq
          split
          · rename_i hrel
            exact hQ.seq _ _ hrel (hQ.pid _ _ hb)
          · rename_i hrel
            split
            · exact hQ.useq _ _ (by simpa using hrel) (hQ.pid _ _ hb)
            · exact hQ.pid _ _ hb
        obtain ⟨p1, p2⟩ := processBunch_w hQF _ x _ g1 (by rw [absSeq_chIndex]; exact g2 x hx) hb'
        obtain ⟨d1, d2⟩ := dispatchWaiting_w hQF _ _ _ p1
        exact ⟨d1, (a1.trans p2).trans d2⟩

theorem bunchLoop_w (hQ : QStable Q) (hQF : ∀ b, Q b → Fits ch lo hi b) (bs : List Bunch) : ∀ (fuel : Nat) (c : Conn) (skip : Bool), bs.length ≤ fuel →
    (∀ b ∈ bs, WFBunch b ∧ Q (wireView b)) → WInv Q ch lo hi c →
    WInv Q ch lo hi (Conn.bunchLoop fuel c (bodyOf bs) skip).1 ∧ Adds (WP lo) c (Conn.bunchLoop fuel c (bodyOf bs) skip).1 := by
  induction bs with
  | nil =>
    intro fuel c skip _ _ h
    cases fuel with
    | zero => exact ⟨h, Adds.refl _ _⟩
    | succ f => unfold Conn.bunchLoop; simp [bodyOf]; exact ⟨h, Adds.refl _ _⟩
  | cons b tl ih =>
    intro fuel c skip hf hall h
    cases fuel with
    | zero => simp at hf
    | succ f =>
      obtain ⟨hwf, hq⟩ := hall b List.mem_cons_self
      obtain ⟨bits, henc, hdec⟩ := Props.C11.decode_encode b hwf (bodyOf tl)
      have hne : bits ≠ [] := Props.C11.encode_nonempty b bits henc
      have hbody : bodyOf (b :: tl) = bits ++ bodyOf tl := by
        simp [bodyOf, encB, henc]
      rw [hbody]
      unfold Conn.bunchLoop
      have hnonempty : (bits ++ bodyOf tl).isEmpty = false := by cases bits <;> simp_all
      simp only [hnonempty, Bool.false_eq_true, if_false]
      obtain ⟨r1, r2⟩ := receivedRawBunch_w hQ hQF c (bits ++ bodyOf tl) h (by
        intro d rest hd
        rw [hdec] at hd
        cases hd
        exact hq)
      have hrest := rawBunch_rest c (bits ++ bodyOf tl) _ _ hdec
      generalize c.receivedRawBunch (bits ++ bodyOf tl) = r at r1 r2 hrest ⊢
      obtain ⟨c', rest', s'⟩ := r
      simp only at r1 r2 hrest ⊢
      subst hrest
      obtain ⟨i1, i2⟩ := ih f c' (skip || s') (by simp at hf; omega) (fun x hx => hall x (List.mem_cons_of_mem _ hx)) r1
      exact ⟨i1, r2.trans i2⟩

theorem wP_notif (lo : Int) : NotifPred (WP lo) :=
  ⟨fun _ _ => wP_of_not_recv lo _ rfl, fun ev h => wP_of_not_recv lo ev (isOut_not_recv ev h), fun ev h => wP_of_not_recv lo ev (isFreeNode_not_recv ev h)⟩

/-- **`ReceivedPacket`**: if the body behind the packet header is a concatenation of encodings of well-formed bunches that satisfy `Q`,
the window invariant is kept and every reliable bunch delivered was numbered above `lo` -/
theorem receivedPacket_w (hQ : QStable Q) (hQF : ∀ b, Q b → Fits ch lo hi b) (e : Env) (c : Conn) (bits : Bits) (h : WInv Q ch lo hi c)
    (hbody : ∀ hd rest, decodePacketHeader bits = .ok (hd, rest) → ∃ bs, rest = bodyOf bs ∧ ∀ b ∈ bs, WFBunch b ∧ Q (wireView b)) :
    WInv Q ch lo hi (c.receivedPacket e bits).1 ∧ Adds (WP lo) c (c.receivedPacket e bits).1 := by
  unfold Conn.receivedPacket
  split
  · exact ⟨h.of_chans (markClose_chans _ _) (markClose_osame _ _).initIn, markClose_adds _ _ _⟩
  · rename_i hd rest hdec
    obtain ⟨bs, hrest, hall⟩ := hbody hd rest hdec
    dsimp only
    split
    · exact ⟨h, Adds.refl _ _⟩
    · have g1 : WInv Q ch lo hi ({ c with inPacketId := c.inPacketId + c.notify.deltaSeq hd } : Conn) := h.of_chans rfl
      have g2 := g1.of_rsame (notifyUpdate_rsame e _ hd) (notifyUpdate_osame e _ hd).initIn
      have a2 : Adds (WP lo) c (({ c with inPacketId := c.inPacketId + c.notify.deltaSeq hd } : Conn).notifyUpdate e hd) :=
        (Adds.of_log_eq rfl : Adds (WP lo) c _).trans (notifyUpdate_adds_gen (wP_notif lo) e _ hd)
      have hlen : bs.length ≤ rest.length + 1 := by
        have : ∀ l : List Bunch, (∀ b ∈ l, WFBunch b) → l.length ≤ (bodyOf l).length := by
          intro l
          induction l with
          | nil => intro _; simp [bodyOf]
          | cons b tl ih =>
            intro hl
            obtain ⟨bits', henc, _⟩ := Props.C11.decode_encode b (hl b List.mem_cons_self) []
            have hne := Props.C11.encode_nonempty b bits' henc
            have := ih (fun x hx => hl x (List.mem_cons_of_mem _ hx))
            have hb : bodyOf (b :: tl) = bits' ++ bodyOf tl := by simp [bodyOf, encB, henc]
            rw [hb]
            have : 0 < bits'.length := by cases bits' <;> simp_all
            simp only [List.length_cons, List.length_append]; omega
        have := this bs (fun b hb => (hall b hb).1)
        rw [hrest]; omega
      rw [hrest] at hlen ⊢
      obtain ⟨b1, b2⟩ := bunchLoop_w hQ hQF bs ((bodyOf bs).length + 1) _ false hlen hall g2
      generalize Conn.bunchLoop ((bodyOf bs).length + 1) (({ c with inPacketId := c.inPacketId + c.notify.deltaSeq hd } : Conn).notifyUpdate e hd) (bodyOf bs) false = r at b1 b2 ⊢
      obtain ⟨c3, rest', skip⟩ := r
      exact ⟨b1.of_chans rfl, (a2.trans b2).trans (Adds.of_log_eq rfl)⟩

/-! ### the send API leaves the receive counters alone (it may create a channel, at the initial value) -/

theorem flush_w (e : Env) (c : Conn) (h : WInv Q ch lo hi c) : WInv Q ch lo hi (c.flush e) ∧ Adds (WP lo) c (c.flush e) :=
  ⟨h.of_chans (flush_chans e c) (flush_keeps e c).initIn, (flush_adds e c).mono (fun ev hev => wP_of_not_recv lo ev (isOut_not_recv ev hev))⟩

theorem sendBunch_w (e : Env) (c : Conn) (b : Bunch) (h : WInv Q ch lo hi c) :
    WInv Q ch lo hi (c.sendBunch e b).1 ∧ Adds (WP lo) c (c.sendBunch e b).1 := by
  have outQ : ∀ ev, isOut ev → WP lo ev := fun ev hev => wP_of_not_recv lo ev (isOut_not_recv ev hev)
  have hraw : WInv Q ch lo hi (c.sendRaw e b).1 ∧ Adds (WP lo) c (c.sendRaw e b).1 := by
    unfold Conn.sendRaw
    split
    · exact ⟨h, Adds.refl _ _⟩
    · unfold Conn.sendCommit
      dsimp only
      have g1 : WInv Q ch lo hi ((c.getOrCreateChan b false).1.noteClose b) :=
        (getOrCreateChan_w c b false h).of_rsame (noteClose_rsame _ b) (noteClose_initIn _ _)
      have a1 : Adds (WP lo) c ((c.getOrCreateChan b false).1.noteClose b) :=
        (getOrCreateChan_adds' (fun k => wP_of_not_recv lo _ rfl) (fun k => wP_of_not_recv lo _ rfl) c b false).trans (noteClose_adds _ _ b)
      generalize (c.getOrCreateChan b false).1.noteClose b = c1 at g1 a1 ⊢
      split
      · exact ⟨g1, a1⟩
      · rename_i x hx
        generalize (if b.bReliable = true then x.outReliable + 1 else 0 : Int) = seq
        generalize (if b.bReliable = true then (encodeBunchHeader { b with chSeq := seq }).getD _ else _) = hdr
        have g2 : WInv Q ch lo hi (if b.bReliable = true then c1.setChan b.chIndex { x with outReliable := seq } else c1) ∧
            Adds (WP lo) c1 (if b.bReliable = true then c1.setChan b.chIndex { x with outReliable := seq } else c1) := by
          split
          · have hw := g1.chans _ x hx
            exact ⟨setChan_w c1 _ _ g1 ⟨hw.low, hw.part, hw.high, hw.queue⟩, setChan_adds _ _ _ _⟩
          · exact ⟨g1, Adds.refl _ _⟩
        generalize (if b.bReliable = true then c1.setChan b.chIndex { x with outReliable := seq } else c1) = c2 at g2 ⊢
        have g4 : WInv Q ch lo hi ((c2.prepareWrite e (hdr.length + b.data.length)).writeInternal e (hdr ++ b.data)).1 :=
          (g2.1.of_chans (prepareWrite_chans e c2 _) (prepareWrite_keeps e c2 _).initIn).of_chans (writeInternal_chans e _ _) (writeInternal_keeps e _ _).initIn
        have a4 : Adds (WP lo) c ((c2.prepareWrite e (hdr.length + b.data.length)).writeInternal e (hdr ++ b.data)).1 :=
          ((a1.trans g2.2).trans ((prepareWrite_adds e c2 _).mono outQ)).trans ((writeInternal_adds e _ _).mono outQ)
        split
        · have g5 : WInv Q ch lo hi (((c2.prepareWrite e (hdr.length + b.data.length)).writeInternal e (hdr ++ b.data)).1.emit (.alloc .node)) := g4.of_chans rfl
          refine ⟨g5.of_rsame (addOutRec_rsame _ _ _ _) (addOutRec_osame _ _ _ _).initIn, ?_⟩
          refine Adds.trans (a4.emit_trans (.alloc .node) (wP_of_not_recv lo _ rfl)) ?_
          apply Adds.of_log_eq
          unfold Conn.addOutRec
          split <;> rfl
        · exact ⟨g4, a4⟩
  unfold Conn.sendBunch
  generalize c.sendRaw e b = r at hraw ⊢
  obtain ⟨c', rr⟩ := r
  simp only at hraw ⊢
  split <;> exact hraw

end Utcp
