import Utcp.BitIO
/-! helper lemmas about the S-level bit primitives -/
namespace Utcp

@[simp] theorem readBit_cons (b : Bool) (rest : Bits) : readBit (b :: rest) = .ok b rest := rfl

theorem readBits_append (bs rest : Bits) : readBits bs.length (bs ++ rest) = .ok bs rest := by
  simp [readBits]

theorem readBits_append' (n : Nat) (bs rest : Bits) (h : bs.length = n) : readBits n (bs ++ rest) = .ok bs rest := by
  subst h; exact readBits_append bs rest

theorem readByte_write (v : Nat) (rest : Bits) : readByte (writeByte v ++ rest) = .ok (v % 256) rest := by
  unfold readByte writeByte
  rw [readBits_append' 8 _ _ (by simp)]
  simp [bitsToNat_natToBits]

theorem readU32_write (v : Nat) (rest : Bits) : readU32 (writeU32 v ++ rest) = .ok (v % 4294967296) rest := by
  unfold readU32 writeU32
  rw [readBits_append' 32 _ _ (by simp)]
  simp [bitsToNat_natToBits]

theorem mod_double (v mask : Nat) : v % (mask * 2) = v % mask + mask * (v / mask % 2) := by
  rw [Nat.mod_mul]

/-- reader undoes writer, whatever follows; the result is the value itself -/
theorem rInt_wInt (fuel v mx : Nat) (rest start : Bits) :
    ∀ mask nv, 0 < mask → nv = v % mask → v < mx → mx ≤ 2^32 → v < mask * 2 ^ fuel →
      rIntLoop fuel mx mask nv start (wInt fuel v mx mask nv ++ rest) = .ok v rest := by
  induction fuel with
  | zero =>
    intro mask nv hm hnv _ _ hlt
    simp only [Nat.pow_zero, Nat.mul_one] at hlt
    simp [rIntLoop, wInt, hnv, Nat.mod_eq_of_lt hlt]
  | succ f ih =>
    intro mask nv hm hnv hv hmx hlt
    unfold wInt rIntLoop
    by_cases h : nv + mask < mx ∧ mask < 2^32
    · simp only [h, and_self, if_true]
      have hlt' : v < mask * 2 * 2 ^ f := by rw [Nat.pow_succ] at hlt; rw [Nat.mul_assoc, Nat.mul_comm 2]; exact hlt
      by_cases hb : v / mask % 2 = 1
      · simp only [hb, if_true, List.cons_append]
        have h2 := mod_double v mask
        rw [hb] at h2
        exact ih (mask*2) (nv+mask) (by omega) (by omega) hv hmx hlt'
      · simp only [hb, if_false, List.cons_append]
        have h2 := mod_double v mask
        have h0 : v / mask % 2 = 0 := by omega
        rw [h0] at h2
        simpa using ih (mask*2) nv (by omega) (by omega) hv hmx hlt'
    · simp only [h, if_false, List.nil_append]
      have hvm : v < mask := by
        by_cases hge : mask ≤ v
        · have h1 : v % mask = (v - mask) % mask := Nat.mod_eq_sub_mod hge
          have h2 : (v - mask) % mask ≤ v - mask := Nat.mod_le _ _
          omega
        · omega
      have : v % mask = v := Nat.mod_eq_of_lt hvm
      simp [hnv, this]

/-- **bounded integer round trip** (`bitbuf_write_int` / `bitbuf_read_int`), every `v < max ≤ 2^32` -/
theorem readInt_writeInt (v mx : Nat) (rest : Bits) (hv : v < mx) (hmx : mx ≤ 2^32) :
    readInt mx (writeInt v mx ++ rest) = .ok v rest := by
  unfold readInt writeInt
  exact rInt_wInt 33 v mx rest _ 1 0 (by decide) (by simp [Nat.mod_one]) hv hmx (by omega)

theorem wInt_length_le (fuel v mx : Nat) : ∀ mask nv k, 0 < mask → mx ≤ mask * 2 ^ k → (wInt fuel v mx mask nv).length ≤ k := by
  induction fuel with
  | zero => intro mask nv k _ _; simp [wInt]
  | succ f ih =>
    intro mask nv k hm hk
    unfold wInt
    by_cases h : nv + mask < mx ∧ mask < 2^32
    · simp only [h, and_self, if_true]
      have hk1 : k ≥ 1 := by
        cases k with
        | zero => simp at hk; omega
        | succ k => omega
      obtain ⟨k', rfl⟩ : ∃ k', k = k' + 1 := ⟨k - 1, by omega⟩
      have hk' : mx ≤ mask * 2 * 2 ^ k' := by rw [Nat.pow_succ] at hk; rw [Nat.mul_assoc, Nat.mul_comm 2]; exact hk
      split
      · simp only [List.length_cons]; have := ih (mask*2) (nv+mask) k' (by omega) hk'; omega
      · simp only [List.length_cons]; have := ih (mask*2) nv k' (by omega) hk'; omega
    · simp [h]

/-- a bounded-integer write uses at most `⌈log2 max⌉` bits (any `k` with `max ≤ 2^k`) -/
theorem writeInt_length_le (v mx k : Nat) (hk : mx ≤ 2 ^ k) : (writeInt v mx).length ≤ k := by
  unfold writeInt
  exact wInt_length_le 33 v mx 1 0 k (by decide) (by simpa using hk)

/-- the reader consumes exactly what the writer produced, also measured in bits -/
theorem readInt_consumes (v mx : Nat) (rest : Bits) (hv : v < mx) (hmx : mx ≤ 2^32) :
    ∃ n, n = (writeInt v mx).length ∧ readInt mx (writeInt v mx ++ rest) = .ok v ((writeInt v mx ++ rest).drop n) := by
  refine ⟨_, rfl, ?_⟩
  rw [readInt_writeInt v mx rest hv hmx]; simp

/-- with a power-of-two maximum the loop never stops early: exactly `k` bits, the low bits of the value
(this is how channel sequence (max 1024) and payload length (max 8192) are written, "wrapped") -/
theorem wInt_pow2 (k v : Nat) : ∀ fuel i nv, i ≤ k → k ≤ 32 → k - i ≤ fuel → nv = v % 2 ^ i →
    wInt fuel v (2 ^ k) (2 ^ i) nv = natToBits (v / 2 ^ i) (k - i) := by
  intro fuel
  induction fuel with
  | zero => intro i nv hi _ hf _; have : k - i = 0 := by omega
            simp [wInt, this, natToBits]
  | succ f ih =>
    intro i nv hi hk hf hnv
    unfold wInt
    by_cases hik : i = k
    · subst hik
      have : ¬ (nv + 2 ^ i < 2 ^ i ∧ 2 ^ i < 2 ^ 32) := by omega
      simp [this, natToBits]
    · have hlt : i < k := by omega
      have hnvlt : nv < 2 ^ i := by rw [hnv]; exact Nat.mod_lt _ (Nat.two_pow_pos i)
      have h2 : 2 ^ i * 2 ≤ 2 ^ k := by
        rw [← Nat.pow_succ]; exact Nat.pow_le_pow_right (by decide) (by omega)
      have h3 : (2:Nat) ^ i < 2 ^ 32 := Nat.pow_lt_pow_right (by decide) (by omega)
      have hc : nv + 2 ^ i < 2 ^ k ∧ 2 ^ i < 2 ^ 32 := ⟨by omega, h3⟩
      simp only [hc, and_self, if_true]
      obtain ⟨d, hd⟩ : ∃ d, k - i = d + 1 := ⟨k - i - 1, by omega⟩
      rw [hd, natToBits]
      have hmd := mod_double v (2 ^ i)
      have hdiv : v / 2 ^ i / 2 = v / 2 ^ (i + 1) := by rw [Nat.div_div_eq_div_mul, Nat.pow_succ]
      have hkd : k - (i + 1) = d := by omega
      by_cases hb : v / 2 ^ i % 2 = 1
      · simp only [hb, if_true, beq_self_eq_true]
        rw [← Nat.pow_succ, ih (i+1) (nv + 2 ^ i) (by omega) hk (by omega) (by rw [Nat.pow_succ, hmd, hb, hnv]; omega), hkd, hdiv]
      · have h0 : v / 2 ^ i % 2 = 0 := by omega
        simp only [h0, Nat.zero_ne_one, if_false]
        rw [← Nat.pow_succ, ih (i+1) nv (by omega) hk (by omega) (by rw [Nat.pow_succ, hmd, h0, hnv]; omega), hkd, hdiv]
        simp

theorem writeIntWrapped_pow2 (k v : Nat) (hk : k ≤ 32) : writeIntWrapped v (2 ^ k) = natToBits v k := by
  unfold writeIntWrapped
  have := wInt_pow2 k v 33 0 0 (by omega) hk (by omega) (by simp [Nat.mod_one])
  simpa using this

/-- reading a wrapped power-of-two integer returns the value modulo `2^k` -/
theorem readInt_wrapped_pow2 (k v : Nat) (rest : Bits) (hk : k ≤ 32) :
    readInt (2 ^ k) (writeIntWrapped v (2 ^ k) ++ rest) = .ok (v % 2 ^ k) rest := by
  have h1 : writeIntWrapped v (2 ^ k) = writeInt (v % 2 ^ k) (2 ^ k) := by
    unfold writeInt
    rw [writeIntWrapped_pow2 k v hk]
    have := writeIntWrapped_pow2 k (v % 2 ^ k) hk
    unfold writeIntWrapped at this
    rw [this]
    -- natToBits only looks at the low k bits
    have : ∀ (k v : Nat), natToBits v k = natToBits (v % 2 ^ k) k := by
      intro k
      induction k with
      | zero => intro v; rfl
      | succ k ih =>
        intro v
        simp only [natToBits]
        have e1 : v % 2 ^ (k + 1) % 2 = v % 2 := by
          rw [Nat.pow_succ, Nat.mul_comm, Nat.mod_mul_right_mod]
        have e2 : v % 2 ^ (k + 1) / 2 = (v / 2) % 2 ^ k := by
          rw [Nat.pow_succ, Nat.mul_comm, Nat.mod_mul_right_div_self]
        rw [e1, e2, ih (v / 2)]
    exact this k v
  rw [h1]
  exact readInt_writeInt _ _ rest (Nat.mod_lt _ (Nat.two_pow_pos k)) (Nat.pow_le_pow_right (by decide) hk)

/-! ## packed integers -/

theorem rPacked_wPacked (fuel : Nat) (rest : Bits) : ∀ v shift acc, v < 2 ^ (7 * fuel) → acc < 2 ^ shift → acc + v * 2 ^ shift < 2 ^ 32 →
    rPackedLoop fuel shift acc (wPacked fuel v ++ rest) = .ok (acc + v * 2 ^ shift) rest ∨ fuel = 0 := by
  induction fuel with
  | zero => intro v shift acc _ _ _; right; rfl
  | succ f ih =>
    intro v shift acc hv hacc hlt
    left
    unfold wPacked rPackedLoop
    simp only [List.append_assoc]
    rw [readBits_append' 8 _ _ (by simp)]
    simp only [bitsToNat_natToBits]
    have hb : (v % 128 * 2 + if (v / 128 != 0) = true then 1 else 0) % 2 ^ 8 = v % 128 * 2 + if (v / 128 != 0) = true then 1 else 0 := by
      apply Nat.mod_eq_of_lt
      have : v % 128 < 128 := Nat.mod_lt _ (by decide)
      split <;> omega
    rw [hb]
    have hsplit : v = v % 128 + 128 * (v / 128) := (Nat.mod_add_div v 128).symm
    by_cases hmore : v / 128 = 0
    · have : (v / 128 != 0) = false := by simp [hmore]
      simp only [this, Bool.false_eq_true, if_false, Nat.add_zero, List.nil_append]
      have hd : v % 128 * 2 / 2 = v % 128 := by omega
      have hm : v % 128 * 2 % 2 = 0 := by omega
      rw [hd, hm]
      simp only [Nat.zero_ne_one, if_false]
      have hv' : v % 128 = v := by omega
      rw [hv', Nat.mod_eq_of_lt hlt]
    · have : (v / 128 != 0) = true := by simp [hmore]
      simp only [this, if_true]
      have hd : (v % 128 * 2 + 1) / 2 = v % 128 := by omega
      have hm : (v % 128 * 2 + 1) % 2 = 1 := by omega
      rw [hd, hm]
      simp only [if_true]
      have hpow : (2:Nat) ^ (shift + 7) = 2 ^ shift * 128 := by rw [Nat.pow_add]
      have hle : acc + v % 128 * 2 ^ shift + v / 128 * 2 ^ (shift + 7) = acc + v * 2 ^ shift := by
        rw [hpow]
        have : v * 2 ^ shift = (v % 128 + 128 * (v / 128)) * 2 ^ shift := by rw [← hsplit]
        rw [this, Nat.add_mul]
        have : 128 * (v / 128) * 2 ^ shift = v / 128 * (2 ^ shift * 128) := by
          rw [Nat.mul_comm 128, Nat.mul_assoc, Nat.mul_comm 128]
        omega
      have hsmall : acc + v % 128 * 2 ^ shift < 2 ^ 32 := by
        have : v / 128 * 2 ^ (shift + 7) ≥ 0 := Nat.zero_le _
        omega
      rw [Nat.mod_eq_of_lt hsmall]
      have hv2 : v / 128 < 2 ^ (7 * f) := by
        have : (2:Nat) ^ (7 * (f + 1)) = 2 ^ (7 * f) * 128 := by rw [Nat.mul_succ, Nat.pow_add]
        rw [this] at hv
        exact Nat.div_lt_of_lt_mul (by rw [Nat.mul_comm]; exact hv)
      have hacc2 : acc + v % 128 * 2 ^ shift < 2 ^ (shift + 7) := by
        rw [hpow]
        have h1 : v % 128 < 128 := Nat.mod_lt _ (by decide)
        have : v % 128 * 2 ^ shift ≤ 127 * 2 ^ shift := Nat.mul_le_mul_right _ (by omega)
        omega
      rcases ih (v / 128) (shift + 7) (acc + v % 128 * 2 ^ shift) hv2 hacc2 (by rw [hle]; exact hlt) with h | h
      · rw [h, hle]
      · subst h
        -- no bytes left: the remaining value must be 0, contradiction with `more`
        simp at hv2
        omega

/-- **packed integer round trip** (`bitbuf_write_int_packed` / `bitbuf_read_int_packed`), all 2^32 values -/
theorem readIntPacked_write (v : Nat) (rest : Bits) : readIntPacked (writeIntPacked v ++ rest) = .ok (v % 2 ^ 32) rest := by
  unfold readIntPacked writeIntPacked
  have hv : v % 2 ^ 32 < 2 ^ (7 * 5) := by
    have : v % 2 ^ 32 < 2 ^ 32 := Nat.mod_lt _ (by decide)
    omega
  rcases rPacked_wPacked 5 rest (v % 2 ^ 32) 0 0 hv (by decide) (by simp; exact Nat.mod_lt _ (by decide)) with h | h
  · simpa using h
  · omega

theorem wPacked_length (fuel v : Nat) : (wPacked fuel v).length ≤ 8 * fuel ∧ (wPacked fuel v).length % 8 = 0 := by
  induction fuel generalizing v with
  | zero => simp [wPacked]
  | succ f ih =>
    unfold wPacked
    simp only [List.length_append, natToBits_length]
    split
    · have := ih (v / 128); omega
    · simp; omega

end Utcp
