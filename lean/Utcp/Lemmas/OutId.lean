import Utcp.Lemmas.StatRun
/-! helper lemmas for `Props/C02_Ids.lean`: the 14-bit sequence number of the next outgoing packet is always the full packet id modulo 2^14 — through every
function that can emit a datagram (flush, the retransmissions a NAK triggers inside the receive path, sends that spill into the next packet) -/
namespace Utcp.Props.C02Hist
open Utcp Utcp.Gen Utcp.Props

/-- the wire sequence of the next packet is its full id modulo 2^14 -/
def OutInv (c : Conn) : Prop := c.notify.outSeq = c.outPacketId % 16384

/-- the step keeps `OutInv` -/
def OStep (c c' : Conn) : Prop := OutInv c → OutInv c'

theorem OStep.refl (c : Conn) : OStep c c := fun h => h
theorem OStep.trans {a b c : Conn} (h1 : OStep a b) (h2 : OStep b c) : OStep a c := fun h => h2 (h1 h)
theorem OStep.of_eq {c c' : Conn} (h1 : c'.notify.outSeq = c.notify.outSeq) (h2 : c'.outPacketId = c.outPacketId) : OStep c c' := by
  intro h; unfold OutInv at h ⊢; rw [h1, h2]; exact h
theorem OStep.of_sameN {c c' : Conn} (h : SameN c c') : OStep c c' := OStep.of_eq (by rw [h.notify]) h.outPacketId

theorem finalHeader_outSeq (c : Conn) : c.finalHeader.1.outSeq = c.notify.outSeq := by
  unfold Conn.finalHeader Notify.fillRefresh
  split
  · rename_i n h heq
    split at heq
    · simp at heq
    · simp at heq; obtain ⟨rfl, _⟩ := heq; rfl
  · rfl

theorem startPacket_ostep (c : Conn) : OStep c c.startPacket := OStep.of_eq rfl rfl

/-- the one place where both counters move: together -/
theorem flushNow_ostep (e : Env) (c : Conn) : OStep c (c.flushNow e) := by
  intro h
  unfold OutInv at h ⊢
  show seq_num_inc c.finalHeader.1.outSeq 1 = (c.outPacketId + 1) % 16384
  rw [finalHeader_outSeq, h]
  unfold seq_num_inc seq_num_init
  omega

theorem flush_ostep (e : Env) (c : Conn) : OStep c (c.flush e) := by
  unfold Conn.flush
  split
  · exact OStep.refl _
  · split
    · exact flushNow_ostep e c
    · exact (startPacket_ostep c).trans (flushNow_ostep e _)

theorem prepareWrite_ostep (e : Env) (c : Conn) (n : Nat) : OStep c (c.prepareWrite e n) := by
  unfold Conn.prepareWrite
  dsimp only
  split
  · split
    · exact (flush_ostep e c).trans (startPacket_ostep _)
    · exact flush_ostep e c
  · split
    · exact startPacket_ostep _
    · exact OStep.refl _

theorem writeInternal_ostep (e : Env) (c : Conn) (bits : Bits) : OStep c (c.writeInternal e bits).1 := by
  unfold Conn.writeInternal
  dsimp only
  have h0 : OStep c { c with sendBody := c.sendBody ++ bits } := OStep.of_eq rfl rfl
  split
  · exact h0.trans (flush_ostep e _)
  · exact h0

theorem writeBits_ostep (e : Env) (c : Conn) (bits : Bits) : OStep c (c.writeBits e bits).1 := by
  unfold Conn.writeBits
  exact (prepareWrite_ostep e c _).trans (writeInternal_ostep e _ bits)

theorem setChan_ostep (c : Conn) (ch : Nat) (x : Channel) : OStep c (c.setChan ch x) := OStep.of_eq rfl rfl
theorem emit_ostep (c : Conn) (ev : Event) : OStep c (c.emit ev) := OStep.of_eq rfl rfl

theorem resendNodes_ostep (e : Env) (ch : Nat) (nodes : List OutNode) : ∀ c : Conn, OStep c (c.resendNodes e ch nodes) := by
  induction nodes with
  | nil => intro c; exact OStep.refl _
  | cons n rest ih =>
    intro c
    unfold Conn.resendNodes
    dsimp only
    refine (writeBits_ostep e c n.bits).trans ?_
    refine OStep.trans ?_ (ih _)
    split
    · exact OStep.refl _
    · exact setChan_ostep _ _ _

theorem onNakChans_ostep (e : Env) (pid : Int) (chs : List Nat) : ∀ c : Conn, OStep c (c.onNakChans e pid chs) := by
  induction chs with
  | nil => intro c; exact OStep.refl _
  | cons ch rest ih =>
    intro c
    unfold Conn.onNakChans
    split
    · exact ih c
    · dsimp only
      exact ((setChan_ostep c ch _).trans (resendNodes_ostep e ch _ _)).trans (ih _)

theorem foldl_emit_ostep {α} (ev : Event) (l : List α) : ∀ c : Conn, OStep c (l.foldl (fun c _ => c.emit ev) c) := by
  induction l with
  | nil => intro c; exact OStep.refl _
  | cons _ rest ih => intro c; exact (emit_ostep c ev).trans (ih _)

theorem onAckChans_ostep (pid : Int) (chs : List Nat) : ∀ c : Conn, OStep c (c.onAckChans pid chs) := by
  induction chs with
  | nil => intro c; exact OStep.refl _
  | cons ch rest ih =>
    intro c
    unfold Conn.onAckChans
    split
    · exact ih c
    · dsimp only
      exact ((setChan_ostep c ch _).trans (foldl_emit_ostep _ _ _)).trans (ih _)

theorem handleNotification_ostep (e : Env) (c : Conn) (v : Int × Bool) : OStep c (c.handleNotification e v) := by
  unfold Conn.handleNotification
  dsimp only
  have h0 : OStep c { c with lastNotified := c.lastNotified + 1 } := OStep.of_eq rfl rfl
  split
  · exact h0
  · split
    · refine h0.trans ?_
      refine OStep.trans (OStep.of_eq rfl rfl : OStep _ { { c with lastNotified := c.lastNotified + 1 } with outAckPacketId := c.lastNotified + 1 }) ?_
      exact (onAckChans_ostep _ _ _).trans (emit_ostep _ _)
    · exact h0.trans ((onNakChans_ostep e _ _ _).trans (emit_ostep _ _))

theorem updateInAckSeqAck_outSeq (n : Notify) (k : Nat) (a : Int) : (n.updateInAckSeqAck k a).outSeq = n.outSeq := by
  unfold Notify.updateInAckSeqAck
  dsimp only
  split
  · split
    · split <;> rfl
    · rfl
  · rfl

theorem notifyUpdate_ostep (e : Env) (c : Conn) (h : NotifHeader) : OStep c (c.notifyUpdate e h) := by
  unfold Conn.notifyUpdate
  dsimp only
  have hfold : ∀ (vs : List (Int × Bool)) (c : Conn), OStep c (vs.foldl (Conn.handleNotification e) c) := by
    intro vs
    induction vs with
    | nil => intro c; exact OStep.refl _
    | cons v rest ih => intro c; exact (handleNotification_ostep e c v).trans (ih _)
  split
  · have h1 : OStep c { c with notify := c.notify.updateInAckSeqAck (seq_num_diff h.ackedSeq c.notify.outAckSeq).toNat h.ackedSeq } :=
      OStep.of_eq (updateInAckSeqAck_outSeq _ _ _) rfl
    have h2 := h1.trans (hfold (verdicts c.notify.outAckSeq h (seq_num_diff h.ackedSeq c.notify.outAckSeq).toNat) _)
    exact h2.trans (OStep.of_eq rfl rfl)
  · exact OStep.of_eq rfl rfl

theorem ackSeqLoop_outSeq (fuel : Nat) : ∀ (n : Notify) (acked : Int) (isAck : Bool), (ackSeqLoop fuel n acked isAck).outSeq = n.outSeq := by
  induction fuel with
  | zero => intro n _ _; rfl
  | succ f ih =>
    intro n acked isAck
    unfold ackSeqLoop
    split
    · exact ih _ _ _
    · rfl

theorem receivedPacket_ostep (e : Env) (c : Conn) (bits : Bits) : OStep c (c.receivedPacket e bits).1 := by
  unfold Conn.receivedPacket
  split
  · exact OStep.of_sameN (markClose_sameN _ _)
  · rename_i h rest hd
    dsimp only
    split
    · exact OStep.refl _
    · have h1 : OStep c { c with inPacketId := c.inPacketId + c.notify.deltaSeq h } := OStep.of_eq rfl rfl
      have h2 := h1.trans (notifyUpdate_ostep e _ h)
      generalize Conn.notifyUpdate e { c with inPacketId := c.inPacketId + c.notify.deltaSeq h } h = c2 at h2 ⊢
      have k3 := bunchLoop_sameN (rest.length + 1) c2 rest false
      generalize Conn.bunchLoop (rest.length + 1) c2 rest false = r at k3 ⊢
      obtain ⟨c3, rest3, skip3⟩ := r
      simp only at k3 ⊢
      refine (h2.trans (OStep.of_sameN k3)).trans ?_
      exact OStep.of_eq (by show (c3.notify.ackSeq _ _).outSeq = _; unfold Notify.ackSeq; exact ackSeqLoop_outSeq _ _ _ _) rfl

theorem sendBunch_ostep (e : Env) (c : Conn) (b : Bunch) : OStep c (c.sendBunch e b).1 := by
  have hraw : OStep c (c.sendRaw e b).1 := by
    unfold Conn.sendRaw
    split
    · exact OStep.refl _
    · unfold Conn.sendCommit
      dsimp only
      have h1 : OStep c ((c.getOrCreateChan b false).1.noteClose b) :=
        (OStep.of_sameN (getOrCreateChan_sameN c b false)).trans (OStep.of_sameN (noteClose_sameN _ b))
      generalize (c.getOrCreateChan b false).1.noteClose b = c1 at h1 ⊢
      split
      · exact h1
      · rename_i x hx
        generalize (if b.bReliable = true then x.outReliable + 1 else 0 : Int) = seq
        generalize (if b.bReliable = true then (encodeBunchHeader { b with chSeq := seq }).getD _ else _) = hdr
        have h2 : OStep c1 (if b.bReliable = true then c1.setChan b.chIndex { x with outReliable := seq } else c1) := by
          split
          · exact setChan_ostep _ _ _
          · exact OStep.refl _
        generalize (if b.bReliable = true then c1.setChan b.chIndex { x with outReliable := seq } else c1) = c2 at h2 ⊢
        have h4 : OStep c ((c2.prepareWrite e (hdr.length + b.data.length)).writeInternal e (hdr ++ b.data)).1 :=
          ((h1.trans h2).trans (prepareWrite_ostep e c2 _)).trans (writeInternal_ostep e _ _)
        split
        · have h5 : OStep c (((c2.prepareWrite e (hdr.length + b.data.length)).writeInternal e (hdr ++ b.data)).1.emit (.alloc .node)) :=
            h4.trans (emit_ostep _ _)
          refine h5.trans ?_
          unfold Conn.addOutRec
          split
          · exact OStep.refl _
          · exact setChan_ostep _ _ _
        · exact h4
  unfold Conn.sendBunch
  generalize c.sendRaw e b = r at hraw ⊢
  obtain ⟨c', rr⟩ := r
  simp only at hraw ⊢
  split <;> exact hraw

theorem update_ostep (e : Env) (c : Conn) : OStep c (c.checkTimeout e).updateTail.1 := by
  have h1 : OStep c (c.checkTimeout e) := by
    unfold Conn.checkTimeout
    split
    · exact OStep.of_sameN (markClose_sameN _ _)
    · exact OStep.refl _
  have hfree : ∀ (c : Conn) (x : Channel), OStep c (c.freeChan x) := by
    intro c x
    unfold Conn.freeChan
    dsimp only
    exact (((OStep.of_sameN (freeNodes_sameN c _)).trans (OStep.of_sameN (freeNodes_sameN _ _))).trans (OStep.of_sameN (freeNodes_sameN _ _))).trans (emit_ostep _ _)
  have hd : ∀ c : Conn, OStep c c.delayClose := by
    intro c
    unfold Conn.delayClose
    split
    · exact OStep.refl _
    · dsimp only
      have hgen : ∀ (f : Conn → Nat × Channel → Conn), (∀ c p, OStep c (f c p)) → ∀ (l : List (Nat × Channel)) (c' : Conn), OStep c' (l.foldl f c') := by
        intro f hf l
        induction l with
        | nil => intro c'; exact OStep.refl _
        | cons p rest ih => intro c'; exact (hf c' p).trans (ih _)
      refine (OStep.of_eq rfl rfl : OStep c { c with hasChannelClose := false }).trans (hgen _ ?_ _ _)
      intro c' p
      split
      · exact OStep.refl _
      · split
        · exact OStep.of_eq rfl rfl
        · exact (hfree c' p.2).trans (OStep.of_eq rfl rfl)
  unfold Conn.updateTail
  dsimp only
  split
  · exact h1.trans (hd _)
  · exact (h1.trans (hd _)).trans (emit_ostep _ _)

end Utcp.Props.C02Hist
