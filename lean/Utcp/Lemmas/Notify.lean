import Utcp.Conn
import Utcp.Props.C13
/-!
# The receiver's acknowledgement history, with a ghost

`packet_notify_ack_seq` pushes one bit per sequence number into a 256-bit shift register.  The ghost list `tg`
remembers *which* sequence number each bit belongs to and the ghost list `calls` remembers every
`(sequence, verdict)` the receive path asked to be recorded.  `RInv` ties the three together; it only mentions
`hist` and `inAckSeq`, so everything that leaves those two fields alone preserves it.
-/
namespace Utcp
open Gen Props.C13

/-- the 256-bit register that holds the verdicts `tg` (newest first) on top of the initial zeros -/
def histOf (tg : List (Int × Bool)) : List Bool := ((tg.map (·.2)) ++ List.replicate 256 false).take 256

theorem histLen_eq : histLen = 256 := by decide

theorem pushHist_histOf (tg : List (Int × Bool)) (s : Int) (b : Bool) : pushHist (histOf tg) b = histOf ((s, b) :: tg) := by
  unfold pushHist histOf
  rw [histLen_eq]
  simp only [List.map_cons, List.cons_append]
  rw [show (256 : Nat) = 255 + 1 from rfl, List.take_succ_cons, List.take_succ_cons]
  congr 1
  rw [List.take_take]
  congr 1

theorem histOf_getD (tg : List (Int × Bool)) (k : Nat) (h : (histOf tg).getD k false = true) :
    ∃ hk : k < tg.length, k < 256 ∧ (tg[k]).2 = true := by
  unfold histOf at h
  rw [List.getD_eq_getElem?_getD, List.getElem?_take] at h
  by_cases hk256 : k < 256
  · simp only [hk256, if_true] at h
    by_cases hk : k < tg.length
    · refine ⟨hk, hk256, ?_⟩
      rw [List.getElem?_append_left (by simpa using hk)] at h
      simpa [List.getElem?_map, hk] using h
    · rw [List.getElem?_append_right (by simpa using Nat.le_of_not_lt hk)] at h
      simp only [List.getElem?_replicate] at h
      split at h <;> simp at h
  · simp [hk256] at h

/-- `ackSeqLoop` with the ghost -/
def ackSeqLoopG (fuel : Nat) (n : Notify) (tg : List (Int × Bool)) (acked : Int) (isAck : Bool) : Notify × List (Int × Bool) :=
  match fuel with
  | 0 => (n, tg)
  | fuel+1 =>
    if seq_num_greater_than acked n.inAckSeq then
      let s := seq_num_inc n.inAckSeq 1
      let rep := if s == acked then isAck else false
      ackSeqLoopG fuel { n with inAckSeq := s, hist := pushHist n.hist rep } ((s, rep) :: tg) acked isAck
    else (n, tg)

theorem ackSeqLoopG_fst (fuel : Nat) : ∀ (n : Notify) (tg : List (Int × Bool)) (acked : Int) (isAck : Bool),
    (ackSeqLoopG fuel n tg acked isAck).1 = ackSeqLoop fuel n acked isAck := by
  induction fuel with
  | zero => intros; rfl
  | succ fuel ih =>
    intro n tg acked isAck
    unfold ackSeqLoopG ackSeqLoop
    split
    · exact ih _ _ _ _
    · rfl

/-- what the receiver's register means -/
structure RInv (n : Notify) (tg : List (Int × Bool)) (calls : List (Int × Bool)) : Prop where
  range : 0 ≤ n.inAckSeq ∧ n.inAckSeq < 16384
  hist : n.hist = histOf tg
  /-- bit `k` of the register belongs to sequence number `inAckSeq - k` -/
  keys : ∀ k (hk : k < tg.length), (tg[k]).1 = (n.inAckSeq - (k : Int)) % 16384
  /-- a set bit was put there by a request to acknowledge exactly that sequence number -/
  prov : ∀ p ∈ tg, p.2 = true → p ∈ calls

theorem RInv.mono {n : Notify} {tg calls calls' : List (Int × Bool)} (h : RInv n tg calls) (hs : ∀ p ∈ calls, p ∈ calls') : RInv n tg calls' :=
  ⟨h.range, h.hist, h.keys, fun p hp ht => hs p (h.prov p hp ht)⟩

/-- `RInv` only reads `hist` and `inAckSeq` -/
theorem RInv.congr {n n' : Notify} {tg calls : List (Int × Bool)} (h : RInv n tg calls) (h1 : n'.hist = n.hist) (h2 : n'.inAckSeq = n.inAckSeq) :
    RInv n' tg calls :=
  ⟨by rw [h2]; exact h.range, by rw [h1]; exact h.hist, by rw [h2]; exact h.keys, h.prov⟩

theorem init_rinv (n : Notify) (i o : Int) (hi : 0 ≤ i ∧ i < 16384) : RInv (n.init i o) [] [] := by
  refine ⟨hi, ?_, ?_, ?_⟩
  · show List.replicate histLen false = histOf []
    rw [histLen_eq]; simp only [histOf, List.map_nil, List.nil_append, List.take_replicate, Nat.min_self]
  · intro k hk; simp at hk
  · intro p hp; simp at hp

theorem ackSeqLoopG_inv (fuel : Nat) : ∀ (n : Notify) (tg calls : List (Int × Bool)) (acked : Int) (isAck : Bool),
    RInv n tg calls → RInv (ackSeqLoopG fuel n tg acked isAck).1 (ackSeqLoopG fuel n tg acked isAck).2 ((acked, isAck) :: calls) := by
  induction fuel with
  | zero => intro n tg calls acked isAck h; exact h.mono (fun p hp => List.mem_cons_of_mem _ hp)
  | succ fuel ih =>
    intro n tg calls acked isAck h
    unfold ackSeqLoopG
    split
    · -- one more sequence number is recorded; the new invariant is stated against the *extended* call list first
      have hstep : RInv { n with inAckSeq := seq_num_inc n.inAckSeq 1, hist := pushHist n.hist (if seq_num_inc n.inAckSeq 1 == acked then isAck else false) }
          ((seq_num_inc n.inAckSeq 1, if seq_num_inc n.inAckSeq 1 == acked then isAck else false) :: tg) ((acked, isAck) :: calls) := by
        have hr := h.range
        have hs : seq_num_inc n.inAckSeq 1 = (n.inAckSeq + 1) % 16384 := by simp only [seq_num_inc, seq_num_init]; omega
        refine ⟨?_, ?_, ?_, ?_⟩
        · show 0 ≤ seq_num_inc n.inAckSeq 1 ∧ seq_num_inc n.inAckSeq 1 < 16384
          rw [hs]; omega
        · show pushHist n.hist _ = histOf _
          rw [h.hist]; exact pushHist_histOf tg _ _
        · intro k hk
          show ((seq_num_inc n.inAckSeq 1, _) :: tg)[k].1 = (seq_num_inc n.inAckSeq 1 - (k : Int)) % 16384
          cases k with
          | zero => simp only [List.getElem_cons_zero]; rw [hs]; omega
          | succ k =>
            simp only [List.getElem_cons_succ]
            rw [h.keys k (by simpa using hk), hs]
            push_cast; omega
        · intro p hp ht
          rcases List.mem_cons.mp hp with rfl | hp
          · simp only at ht
            by_cases he : (seq_num_inc n.inAckSeq 1 == acked) = true
            · simp only [he, if_true] at ht ⊢
              have : seq_num_inc n.inAckSeq 1 = acked := by simpa using he
              rw [this, ht]; exact List.mem_cons_self
            · simp [he] at ht
          · exact List.mem_cons_of_mem _ (h.prov p hp ht)
      -- the recursive call adds `(acked, isAck)` once more; the list only matters up to membership
      have := ih _ _ _ acked isAck hstep
      exact this.mono (fun p hp => by
        rcases List.mem_cons.mp hp with rfl | hp
        · exact List.mem_cons_self
        · exact hp)
    · exact h.mono (fun p hp => List.mem_cons_of_mem _ hp)

/-- **`packet_notify_ack_seq` keeps the meaning of the register**; the only new request is `(seq mod 2^14, verdict)` -/
theorem ackSeq_rinv (n : Notify) (tg calls : List (Int × Bool)) (s : Int) (isAck : Bool) (h : RInv n tg calls) :
    ∃ tg', RInv (n.ackSeq s isAck) tg' ((s % 16384, isAck) :: calls) := by
  refine ⟨(ackSeqLoopG 16384 n tg (seq_num_init (s % 65536)) isAck).2, ?_⟩
  have := ackSeqLoopG_inv 16384 n tg calls (seq_num_init (s % 65536)) isAck h
  rw [ackSeqLoopG_fst] at this
  have hs : seq_num_init (s % 65536) = s % 16384 := by simp only [seq_num_init]; omega
  rw [hs] at this
  unfold Notify.ackSeq
  rw [hs]
  exact this

/-- **what a set bit in an acknowledgement header means**: if the sender turns header `h` (written by a receiver whose
register satisfies `RInv`) into verdicts, every ACK verdict names a sequence number the receiver was asked to acknowledge -/
theorem verdicts_sound (n : Notify) (tg calls : List (Int × Bool)) (w : Nat) (outAck : Int) (h : RInv n tg calls)
    (ho : 0 ≤ outAck ∧ outAck < 16384) (hgt : seq_num_greater_than (n.headerWith w).ackedSeq outAck = true) :
    ∀ v ∈ verdicts outAck (n.headerWith w) (seq_num_diff (n.headerWith w).ackedSeq outAck).toNat, v.2 = true → v ∈ calls := by
  intro v hv ht
  have hacked : (n.headerWith w).ackedSeq = n.inAckSeq := rfl
  rw [hacked] at hv hgt
  have hr := h.range
  have hd := diff_spec n.inAckSeq outAck ⟨hr.1, by omega⟩ ⟨ho.1, by omega⟩
  have hpos := (gt_iff_diff_pos n.inAckSeq outAck hr ho).mp hgt
  unfold verdicts at hv
  obtain ⟨i, hi, rfl⟩ := List.mem_map.mp hv
  have hi' : i < (seq_num_diff n.inAckSeq outAck).toNat := by simpa using hi
  simp only at ht ⊢
  -- the bit is set, so it lies inside the register and inside the transmitted words
  split at ht
  · simp at ht
  · rename_i hidx
    have hbit : n.hist.getD ((seq_num_diff n.inAckSeq outAck).toNat - 1 - i) false = true := by
      have : (n.headerWith w).hist = n.hist.take (32 * (min w histWordsMax)) := rfl
      rw [this] at ht
      rw [List.getD_eq_getElem?_getD, List.getElem?_take] at ht
      split at ht
      · rw [List.getD_eq_getElem?_getD]; exact ht
      · simp at ht
    rw [h.hist] at hbit
    obtain ⟨hk, _, hv2⟩ := histOf_getD tg _ hbit
    have hkey := h.keys _ hk
    have hmem : tg[(seq_num_diff n.inAckSeq outAck).toNat - 1 - i] ∈ tg := List.getElem_mem _
    have hcall := h.prov _ hmem hv2
    -- the verdict's sequence number is the key of that bit
    have hcast : ((seq_num_diff n.inAckSeq outAck).toNat : Int) = seq_num_diff n.inAckSeq outAck := Int.toNat_of_nonneg (by omega)
    have hid : seq_num_inc outAck ((i + 1 : Nat) : Int) = (n.inAckSeq - (((seq_num_diff n.inAckSeq outAck).toNat - 1 - i : Nat) : Int)) % 16384 := by
      simp only [seq_num_inc, seq_num_init]
      have : (((seq_num_diff n.inAckSeq outAck).toNat - 1 - i : Nat) : Int) = seq_num_diff n.inAckSeq outAck - 1 - i := by omega
      rw [this]
      push_cast
      omega
    have hpair : (seq_num_inc outAck ((i + 1 : Nat) : Int), if (seq_num_diff n.inAckSeq outAck).toNat - 1 - i ≥ histLen then false
        else (n.headerWith w).hist.getD ((seq_num_diff n.inAckSeq outAck).toNat - 1 - i) false) = tg[(seq_num_diff n.inAckSeq outAck).toNat - 1 - i] := by
      rw [Prod.ext_iff]
      refine ⟨?_, ?_⟩
      · simp only; rw [hid, hkey]
      · simp only [hidx, if_false]; rw [ht, hv2]
    rw [hpair]
    exact hcall

/-! ## the same register, with unbounded packet ids

`pid` is the receiver's full packet-id counter (`InPacketId`, never wraps in the model).  Tags carry full ids, so "the
receiver asked for packet `q` to be acknowledged" is unambiguous and — ids only grow — `false` in the register for `q`
means: not accepted-and-acknowledged, now or ever. -/

def ackSeqLoopF (fuel : Nat) (n : Notify) (tg : List (Int × Bool)) (pid : Int) (acked : Int) (isAck : Bool) : Notify × List (Int × Bool) × Int :=
  match fuel with
  | 0 => (n, tg, pid)
  | fuel+1 =>
    if seq_num_greater_than acked n.inAckSeq then
      let s := seq_num_inc n.inAckSeq 1
      let rep := if s == acked then isAck else false
      ackSeqLoopF fuel { n with inAckSeq := s, hist := pushHist n.hist rep } ((pid + 1, rep) :: tg) (pid + 1) acked isAck
    else (n, tg, pid)

theorem ackSeqLoopF_fst (fuel : Nat) : ∀ (n : Notify) (tg : List (Int × Bool)) (pid acked : Int) (isAck : Bool),
    (ackSeqLoopF fuel n tg pid acked isAck).1 = ackSeqLoop fuel n acked isAck := by
  induction fuel with
  | zero => intros; rfl
  | succ fuel ih =>
    intro n tg pid acked isAck
    unfold ackSeqLoopF ackSeqLoop
    split
    · exact ih _ _ _ _ _
    · rfl

structure RInvF (n : Notify) (tg : List (Int × Bool)) (calls : List (Int × Bool)) (pid : Int) : Prop where
  reg : n.inAckSeq = pid % 16384
  hist : n.hist = histOf tg
  /-- bit `k` of the register belongs to packet `pid - k` -/
  keys : ∀ k (hk : k < tg.length), (tg[k]).1 = pid - (k : Int)
  /-- a bit is set **iff** the receiver asked for exactly that packet to be acknowledged -/
  ack : ∀ p ∈ tg, (p.2 = true ↔ (p.1, true) ∈ calls)
  /-- requests are only ever made for the packet just accepted: none concerns a packet beyond the counter -/
  callsLe : ∀ q ∈ calls, q.1 ≤ pid

theorem RInvF.congr {n n' : Notify} {tg calls : List (Int × Bool)} {pid : Int} (h : RInvF n tg calls pid) (h1 : n'.hist = n.hist) (h2 : n'.inAckSeq = n.inAckSeq) :
    RInvF n' tg calls pid :=
  ⟨by rw [h2]; exact h.reg, by rw [h1]; exact h.hist, h.keys, h.ack, h.callsLe⟩

theorem init_rinvF (n : Notify) (i o pid : Int) (hi : i = pid % 16384) : RInvF (n.init i o) [] [] pid := by
  refine ⟨hi, ?_, ?_, ?_, ?_⟩
  · show List.replicate histLen false = histOf []
    rw [histLen_eq]; simp only [histOf, List.map_nil, List.nil_append, List.take_replicate, Nat.min_self]
  · intro k hk; simp at hk
  · intro p hp; simp at hp
  · intro q hq; simp at hq

/-- the loop advances the register from packet `pid` to packet `target` (`0 ≤ target - pid < 8192`), recording `isAck` for
`target` and `false` for every packet in between -/
theorem ackSeqLoopF_inv (fuel : Nat) : ∀ (n : Notify) (tg calls : List (Int × Bool)) (pid target : Int) (isAck : Bool),
    RInvF n tg calls pid → pid ≤ target → target - pid < 8192 → target - pid ≤ fuel →
    RInvF (ackSeqLoopF fuel n tg pid (target % 16384) isAck).1 (ackSeqLoopF fuel n tg pid (target % 16384) isAck).2.1
      (if pid < target then (target, isAck) :: calls else calls) target := by
  induction fuel with
  | zero =>
    intro n tg calls pid target isAck h h1 _ h3
    have : target = pid := by omega
    subst this
    simp only [Int.lt_irrefl, if_false]
    exact h
  | succ fuel ih =>
    intro n tg calls pid target isAck h h1 h2 h3
    unfold ackSeqLoopF
    have hreg := h.reg
    by_cases heq : target = pid
    · subst heq
      have : seq_num_greater_than (target % 16384) n.inAckSeq = false := by
        rw [hreg]; exact gt_irrefl _
      simp only [this, Bool.false_eq_true, if_false, Int.lt_irrefl]
      exact h
    · have hlt : pid < target := by omega
      have hgt : seq_num_greater_than (target % 16384) n.inAckSeq = true := by
        rw [hreg]
        simp only [seq_num_greater_than, Bool.and_eq_true, bne_iff_ne, ne_eq, decide_eq_true_eq]
        omega
      simp only [hgt, if_true, hlt]
      have hs : seq_num_inc n.inAckSeq 1 = (pid + 1) % 16384 := by
        rw [hreg]; simp only [seq_num_inc, seq_num_init]; omega
      -- is this the last step?
      have hrep : (seq_num_inc n.inAckSeq 1 == target % 16384) = decide (pid + 1 = target) := by
        rw [hs]
        by_cases hl : pid + 1 = target
        · simp [hl]
        · have : ¬ ((pid + 1) % 16384 = target % 16384) := by omega
          simp [hl, this]
      -- the state after one push satisfies the invariant for packet `pid + 1`, against the final call list when this is the last
      -- step and against the old one otherwise
      by_cases hl : pid + 1 = target
      · have hstep : RInvF { n with inAckSeq := seq_num_inc n.inAckSeq 1, hist := pushHist n.hist (if (seq_num_inc n.inAckSeq 1 == target % 16384) = true then isAck else false) }
            ((pid + 1, if (seq_num_inc n.inAckSeq 1 == target % 16384) = true then isAck else false) :: tg) ((target, isAck) :: calls) (pid + 1) := by
          rw [hrep]
          simp only [hl, decide_true, if_true]
          refine ⟨?_, ?_, ?_, ?_, ?_⟩
          · show seq_num_inc n.inAckSeq 1 = target % 16384
            rw [hs, hl]
          · show pushHist n.hist isAck = histOf ((target, isAck) :: tg)
            rw [h.hist]; exact pushHist_histOf tg _ _
          · intro k hk
            cases k with
            | zero => simp
            | succ k =>
              simp only [List.getElem_cons_succ]
              rw [h.keys k (by simpa using hk)]; push_cast; omega
          · intro p hp
            rcases List.mem_cons.mp hp with rfl | hp
            · simp only
              constructor
              · intro ht; rw [ht]; exact List.mem_cons_self
              · intro hm
                rcases List.mem_cons.mp hm with hm | hm
                · exact (Prod.ext_iff.mp hm).2.symm
                · have := h.callsLe _ hm; simp only at this; omega
            · obtain ⟨k, hk, rfl⟩ := List.getElem_of_mem hp
              have hkey := h.keys k hk
              rw [h.ack _ hp]
              constructor
              · intro hm; exact List.mem_cons_of_mem _ hm
              · intro hm
                rcases List.mem_cons.mp hm with hm | hm
                · have := (Prod.ext_iff.mp hm).1; simp only at this; omega
                · exact hm
          · intro q hq
            rcases List.mem_cons.mp hq with rfl | hq
            · simp only; omega
            · have := h.callsLe q hq; omega
        have hrec := ih _ _ ((target, isAck) :: calls) (pid + 1) target isAck hstep (by omega) (by omega) (by omega)
        have hnl : ¬ (pid + 1 < target) := by omega
        simp only [hnl, if_false] at hrec
        exact hrec
      · have hstep : RInvF { n with inAckSeq := seq_num_inc n.inAckSeq 1, hist := pushHist n.hist (if (seq_num_inc n.inAckSeq 1 == target % 16384) = true then isAck else false) }
            ((pid + 1, if (seq_num_inc n.inAckSeq 1 == target % 16384) = true then isAck else false) :: tg) calls (pid + 1) := by
          rw [hrep]
          simp only [hl, decide_false, Bool.false_eq_true, if_false]
          refine ⟨?_, ?_, ?_, ?_, ?_⟩
          · show seq_num_inc n.inAckSeq 1 = (pid + 1) % 16384
            exact hs
          · show pushHist n.hist false = histOf ((pid + 1, false) :: tg)
            rw [h.hist]; exact pushHist_histOf tg _ _
          · intro k hk
            cases k with
            | zero => simp
            | succ k =>
              simp only [List.getElem_cons_succ]
              rw [h.keys k (by simpa using hk)]; push_cast; omega
          · intro p hp
            rcases List.mem_cons.mp hp with rfl | hp
            · simp only
              constructor
              · intro ht; cases ht
              · intro hm; have := h.callsLe _ hm; simp only at this; omega
            · exact h.ack p hp
          · intro q hq; have := h.callsLe q hq; omega
        have hrec := ih _ _ calls (pid + 1) target isAck hstep (by omega) (by omega) (by omega)
        have hl' : pid + 1 < target := by omega
        simp only [hl', if_true] at hrec
        exact hrec

/-- **`packet_notify_ack_seq` for the packet just accepted**: the counter has moved from `pid` to `target` (by less than 2^13) -/
theorem ackSeq_rinvF (n : Notify) (tg calls : List (Int × Bool)) (pid target : Int) (isAck : Bool) (h : RInvF n tg calls pid)
    (h1 : pid < target) (h2 : target - pid < 8192) :
    ∃ tg', RInvF (n.ackSeq target isAck) tg' ((target, isAck) :: calls) target := by
  have := ackSeqLoopF_inv 16384 n tg calls pid target isAck h (by omega) h2 (by omega)
  rw [ackSeqLoopF_fst] at this
  simp only [h1, if_true] at this
  refine ⟨(ackSeqLoopF 16384 n tg pid (target % 16384) isAck).2.1, ?_⟩
  unfold Notify.ackSeq
  have hs : seq_num_init (target % 65536) = target % 16384 := by simp only [seq_num_init]; omega
  rw [hs]
  exact this

/-- **what every bit of an acknowledgement header means**, both ways: the verdict the sender derives for position `idx` of the
register is `true` iff the receiver asked for packet `pid - idx` to be acknowledged, and the 14-bit id the sender attaches to
that verdict is that packet's id modulo 2^14 -/
theorem verdicts_exact (n : Notify) (tg calls : List (Int × Bool)) (pid : Int) (w : Nat) (outAck : Int) (h : RInvF n tg calls pid)
    (ho : 0 ≤ outAck ∧ outAck < 16384) (hgt : seq_num_greater_than (n.headerWith w).ackedSeq outAck = true)
    (i : Nat) (hi : i < (seq_num_diff (n.headerWith w).ackedSeq outAck).toNat) (v : Int × Bool)
    (hvi : (verdicts outAck (n.headerWith w) (seq_num_diff (n.headerWith w).ackedSeq outAck).toNat)[i]? = some v) :
    v.1 = (pid - (((seq_num_diff (n.headerWith w).ackedSeq outAck).toNat - 1 - i : Nat) : Int)) % 16384 ∧
    (v.2 = true → (pid - (((seq_num_diff (n.headerWith w).ackedSeq outAck).toNat - 1 - i : Nat) : Int), true) ∈ calls) ∧
    (v.2 = false → (seq_num_diff (n.headerWith w).ackedSeq outAck).toNat - 1 - i < 256 →
      (seq_num_diff (n.headerWith w).ackedSeq outAck).toNat - 1 - i < 32 * (min w histWordsMax) →
      (seq_num_diff (n.headerWith w).ackedSeq outAck).toNat - 1 - i < tg.length →
      (pid - (((seq_num_diff (n.headerWith w).ackedSeq outAck).toNat - 1 - i : Nat) : Int), true) ∉ calls) := by
  have hacked : (n.headerWith w).ackedSeq = n.inAckSeq := rfl
  rw [hacked] at hi hvi hgt ⊢
  generalize hidxdef : (seq_num_diff n.inAckSeq outAck).toNat - 1 - i = idx
  have hreg := h.reg
  have hr : 0 ≤ n.inAckSeq ∧ n.inAckSeq < 16384 := by rw [hreg]; omega
  have hd := diff_spec n.inAckSeq outAck ⟨hr.1, by omega⟩ ⟨ho.1, by omega⟩
  have hpos := (gt_iff_diff_pos n.inAckSeq outAck hr ho).mp hgt
  have hcast : ((seq_num_diff n.inAckSeq outAck).toNat : Int) = seq_num_diff n.inAckSeq outAck := Int.toNat_of_nonneg (by omega)
  have hidx : ((idx : Nat) : Int) = seq_num_diff n.inAckSeq outAck - 1 - i := by
    rw [← hidxdef]; omega
  have hv : v = (seq_num_inc outAck ((i + 1 : Nat) : Int), if idx ≥ histLen then false else (n.headerWith w).hist.getD idx false) := by
    unfold verdicts at hvi
    rw [List.getElem?_map, List.getElem?_range hi] at hvi
    simp only [Option.map_some, Option.some.injEq] at hvi
    rw [← hvi, hidxdef]
  have hbitdef : (n.headerWith w).hist = n.hist.take (32 * (min w histWordsMax)) := rfl
  refine ⟨?_, ?_, ?_⟩
  · rw [hv]; simp only [seq_num_inc, seq_num_init]
    rw [hidx]; push_cast; omega
  · intro ht
    rw [hv] at ht
    simp only at ht
    split at ht
    · simp at ht
    · rw [hbitdef, List.getD_eq_getElem?_getD, List.getElem?_take] at ht
      split at ht
      · have hb : n.hist.getD idx false = true := by rw [List.getD_eq_getElem?_getD]; exact ht
        rw [h.hist] at hb
        obtain ⟨hk, _, hv2⟩ := histOf_getD tg _ hb
        have := (h.ack _ (List.getElem_mem hk)).mp hv2
        rw [h.keys idx hk] at this
        exact this
      · simp at ht
  · intro hf h256 hw hk hm
    -- the tag at `idx` is `(pid - idx, bit)`; a request with verdict `true` would have set the bit
    have hmem : tg[idx] ∈ tg := List.getElem_mem hk
    have hkey := h.keys idx hk
    have hset : (tg[idx]).2 = true := (h.ack _ hmem).mpr (by rw [hkey]; exact hm)
    have hb : n.hist.getD idx false = true := by
      rw [h.hist]; unfold histOf
      rw [List.getD_eq_getElem?_getD, List.getElem?_take]
      simp only [h256, if_true]
      rw [List.getElem?_append_left (by simpa using hk)]
      simp [List.getElem?_map, hk, hset]
    rw [hv] at hf
    simp only at hf
    have h256' : ¬ idx ≥ histLen := by rw [histLen_eq]; omega
    simp only [h256', if_false] at hf
    rw [hbitdef, List.getD_eq_getElem?_getD, List.getElem?_take] at hf
    simp only [hw, if_true] at hf
    rw [List.getD_eq_getElem?_getD] at hb
    rw [hb] at hf
    cases hf

end Utcp
