import Utcp.Conn
import Utcp.Props.C13
/-!
# The receiver's acknowledgement history, with a ghost

`packet_notify_ack_seq` pushes one bit per sequence number into a 256-bit shift register.  The ghost list `tg`
remembers *which* sequence number each bit belongs to and the ghost list `calls` remembers every
`(sequence, verdict)` the receive path asked to be recorded.  `RInv` ties the three together; it only mentions
`hist` and `inAckSeq`, so everything that leaves those two fields alone preserves it.
-/
namespace Utcp
open Gen Props.C13

/-- the 256-bit register that holds the verdicts `tg` (newest first) on top of the initial zeros -/
def histOf (tg : List (Int × Bool)) : List Bool := ((tg.map (·.2)) ++ List.replicate 256 false).take 256

theorem histLen_eq : histLen = 256 := by decide

theorem pushHist_histOf (tg : List (Int × Bool)) (s : Int) (b : Bool) : pushHist (histOf tg) b = histOf ((s, b) :: tg) := by
  unfold pushHist histOf
  rw [histLen_eq]
  simp only [List.map_cons, List.cons_append]
  rw [show (256 : Nat) = 255 + 1 from rfl, List.take_succ_cons, List.take_succ_cons]
  congr 1
  rw [List.take_take]
  congr 1

theorem histOf_getD (tg : List (Int × Bool)) (k : Nat) (h : (histOf tg).getD k false = true) :
    ∃ hk : k < tg.length, k < 256 ∧ (tg[k]).2 = true := by
  unfold histOf at h
  rw [List.getD_eq_getElem?_getD, List.getElem?_take] at h
  by_cases hk256 : k < 256
  · simp only [hk256, if_true] at h
    by_cases hk : k < tg.length
    · refine ⟨hk, hk256, ?_⟩
      rw [List.getElem?_append_left (by simpa using hk)] at h
      simpa [List.getElem?_map, hk] using h
    · rw [List.getElem?_append_right (by simpa using Nat.le_of_not_lt hk)] at h
      simp only [List.getElem?_replicate] at h
      split at h <;> simp at h
  · simp [hk256] at h

/-- `ackSeqLoop` with the ghost -/
def ackSeqLoopG (fuel : Nat) (n : Notify) (tg : List (Int × Bool)) (acked : Int) (isAck : Bool) : Notify × List (Int × Bool) :=
  match fuel with
  | 0 => (n, tg)
  | fuel+1 =>
    if seq_num_greater_than acked n.inAckSeq then
      let s := seq_num_inc n.inAckSeq 1
      let rep := if s == acked then isAck else false
      ackSeqLoopG fuel { n with inAckSeq := s, hist := pushHist n.hist rep } ((s, rep) :: tg) acked isAck
    else (n, tg)

theorem ackSeqLoopG_fst (fuel : Nat) : ∀ (n : Notify) (tg : List (Int × Bool)) (acked : Int) (isAck : Bool),
    (ackSeqLoopG fuel n tg acked isAck).1 = ackSeqLoop fuel n acked isAck := by
  induction fuel with
  | zero => intros; rfl
  | succ fuel ih =>
    intro n tg acked isAck
    unfold ackSeqLoopG ackSeqLoop
    split
    · exact ih _ _ _ _
    · rfl

/-- what the receiver's register means -/
structure RInv (n : Notify) (tg : List (Int × Bool)) (calls : List (Int × Bool)) : Prop where
  range : 0 ≤ n.inAckSeq ∧ n.inAckSeq < 16384
  hist : n.hist = histOf tg
  /-- bit `k` of the register belongs to sequence number `inAckSeq - k` -/
  keys : ∀ k (hk : k < tg.length), (tg[k]).1 = (n.inAckSeq - (k : Int)) % 16384
  /-- a set bit was put there by a request to acknowledge exactly that sequence number -/
  prov : ∀ p ∈ tg, p.2 = true → p ∈ calls

theorem RInv.mono {n : Notify} {tg calls calls' : List (Int × Bool)} (h : RInv n tg calls) (hs : ∀ p ∈ calls, p ∈ calls') : RInv n tg calls' :=
  ⟨h.range, h.hist, h.keys, fun p hp ht => hs p (h.prov p hp ht)⟩

/-- `RInv` only reads `hist` and `inAckSeq` -/
theorem RInv.congr {n n' : Notify} {tg calls : List (Int × Bool)} (h : RInv n tg calls) (h1 : n'.hist = n.hist) (h2 : n'.inAckSeq = n.inAckSeq) :
    RInv n' tg calls :=
  ⟨by rw [h2]; exact h.range, by rw [h1]; exact h.hist, by rw [h2]; exact h.keys, h.prov⟩

theorem init_rinv (n : Notify) (i o : Int) (hi : 0 ≤ i ∧ i < 16384) : RInv (n.init i o) [] [] := by
  refine ⟨hi, ?_, ?_, ?_⟩
  · show List.replicate histLen false = histOf []
    rw [histLen_eq]; simp only [histOf, List.map_nil, List.nil_append, List.take_replicate, Nat.min_self]
  · intro k hk; simp at hk
  · intro p hp; simp at hp

theorem ackSeqLoopG_inv (fuel : Nat) : ∀ (n : Notify) (tg calls : List (Int × Bool)) (acked : Int) (isAck : Bool),
    RInv n tg calls → RInv (ackSeqLoopG fuel n tg acked isAck).1 (ackSeqLoopG fuel n tg acked isAck).2 ((acked, isAck) :: calls) := by
  induction fuel with
  | zero => intro n tg calls acked isAck h; exact h.mono (fun p hp => List.mem_cons_of_mem _ hp)
  | succ fuel ih =>
    intro n tg calls acked isAck h
    unfold ackSeqLoopG
    split
    · -- one more sequence number is recorded; the new invariant is stated against the *extended* call list first
      have hstep : RInv { n with inAckSeq := seq_num_inc n.inAckSeq 1, hist := pushHist n.hist (if seq_num_inc n.inAckSeq 1 == acked then isAck else false) }
          ((seq_num_inc n.inAckSeq 1, if seq_num_inc n.inAckSeq 1 == acked then isAck else false) :: tg) ((acked, isAck) :: calls) := by
        have hr := h.range
        have hs : seq_num_inc n.inAckSeq 1 = (n.inAckSeq + 1) % 16384 := by simp only [seq_num_inc, seq_num_init]; omega
        refine ⟨?_, ?_, ?_, ?_⟩
        · show 0 ≤ seq_num_inc n.inAckSeq 1 ∧ seq_num_inc n.inAckSeq 1 < 16384
          rw [hs]; omega
        · show pushHist n.hist _ = histOf _
          rw [h.hist]; exact pushHist_histOf tg _ _
        · intro k hk
          show ((seq_num_inc n.inAckSeq 1, _) :: tg)[k].1 = (seq_num_inc n.inAckSeq 1 - (k : Int)) % 16384
          cases k with
          | zero => simp only [List.getElem_cons_zero]; rw [hs]; omega
          | succ k =>
            simp only [List.getElem_cons_succ]
            rw [h.keys k (by simpa using hk), hs]
            push_cast; omega
        · intro p hp ht
          rcases List.mem_cons.mp hp with rfl | hp
          · simp only at ht
            by_cases he : (seq_num_inc n.inAckSeq 1 == acked) = true
            · simp only [he, if_true] at ht ⊢
              have : seq_num_inc n.inAckSeq 1 = acked := by simpa using he
              rw [this, ht]; exact List.mem_cons_self
            · simp [he] at ht
          · exact List.mem_cons_of_mem _ (h.prov p hp ht)
      -- the recursive call adds `(acked, isAck)` once more; the list only matters up to membership
      have := ih _ _ _ acked isAck hstep
      exact this.mono (fun p hp => by
        rcases List.mem_cons.mp hp with rfl | hp
        · exact List.mem_cons_self
        · exact hp)
    · exact h.mono (fun p hp => List.mem_cons_of_mem _ hp)

/-- **`packet_notify_ack_seq` keeps the meaning of the register**; the only new request is `(seq mod 2^14, verdict)` -/
theorem ackSeq_rinv (n : Notify) (tg calls : List (Int × Bool)) (s : Int) (isAck : Bool) (h : RInv n tg calls) :
    ∃ tg', RInv (n.ackSeq s isAck) tg' ((s % 16384, isAck) :: calls) := by
  refine ⟨(ackSeqLoopG 16384 n tg (seq_num_init (s % 65536)) isAck).2, ?_⟩
  have := ackSeqLoopG_inv 16384 n tg calls (seq_num_init (s % 65536)) isAck h
  rw [ackSeqLoopG_fst] at this
  have hs : seq_num_init (s % 65536) = s % 16384 := by simp only [seq_num_init]; omega
  rw [hs] at this
  unfold Notify.ackSeq
  rw [hs]
  exact this

/-- **what a set bit in an acknowledgement header means**: if the sender turns header `h` (written by a receiver whose
register satisfies `RInv`) into verdicts, every ACK verdict names a sequence number the receiver was asked to acknowledge -/
theorem verdicts_sound (n : Notify) (tg calls : List (Int × Bool)) (w : Nat) (outAck : Int) (h : RInv n tg calls)
    (ho : 0 ≤ outAck ∧ outAck < 16384) (hgt : seq_num_greater_than (n.headerWith w).ackedSeq outAck = true) :
    ∀ v ∈ verdicts outAck (n.headerWith w) (seq_num_diff (n.headerWith w).ackedSeq outAck).toNat, v.2 = true → v ∈ calls := by
  intro v hv ht
  have hacked : (n.headerWith w).ackedSeq = n.inAckSeq := rfl
  rw [hacked] at hv hgt
  have hr := h.range
  have hd := diff_spec n.inAckSeq outAck ⟨hr.1, by omega⟩ ⟨ho.1, by omega⟩
  have hpos := (gt_iff_diff_pos n.inAckSeq outAck hr ho).mp hgt
  unfold verdicts at hv
  obtain ⟨i, hi, rfl⟩ := List.mem_map.mp hv
  have hi' : i < (seq_num_diff n.inAckSeq outAck).toNat := by simpa using hi
  simp only at ht ⊢
  -- the bit is set, so it lies inside the register and inside the transmitted words
  split at ht
  · simp at ht
  · rename_i hidx
    have hbit : n.hist.getD ((seq_num_diff n.inAckSeq outAck).toNat - 1 - i) false = true := by
      have : (n.headerWith w).hist = n.hist.take (32 * (min w histWordsMax)) := rfl
      rw [this] at ht
      rw [List.getD_eq_getElem?_getD, List.getElem?_take] at ht
      split at ht
      · rw [List.getD_eq_getElem?_getD]; exact ht
      · simp at ht
    rw [h.hist] at hbit
    obtain ⟨hk, _, hv2⟩ := histOf_getD tg _ hbit
    have hkey := h.keys _ hk
    have hmem : tg[(seq_num_diff n.inAckSeq outAck).toNat - 1 - i] ∈ tg := List.getElem_mem _
    have hcall := h.prov _ hmem hv2
    -- the verdict's sequence number is the key of that bit
    have hcast : ((seq_num_diff n.inAckSeq outAck).toNat : Int) = seq_num_diff n.inAckSeq outAck := Int.toNat_of_nonneg (by omega)
    have hid : seq_num_inc outAck ((i + 1 : Nat) : Int) = (n.inAckSeq - (((seq_num_diff n.inAckSeq outAck).toNat - 1 - i : Nat) : Int)) % 16384 := by
      simp only [seq_num_inc, seq_num_init]
      have : (((seq_num_diff n.inAckSeq outAck).toNat - 1 - i : Nat) : Int) = seq_num_diff n.inAckSeq outAck - 1 - i := by omega
      rw [this]
      push_cast
      omega
    have hpair : (seq_num_inc outAck ((i + 1 : Nat) : Int), if (seq_num_diff n.inAckSeq outAck).toNat - 1 - i ≥ histLen then false
        else (n.headerWith w).hist.getD ((seq_num_diff n.inAckSeq outAck).toNat - 1 - i) false) = tg[(seq_num_diff n.inAckSeq outAck).toNat - 1 - i] := by
      rw [Prod.ext_iff]
      refine ⟨?_, ?_⟩
      · simp only; rw [hid, hkey]
      · simp only [hidx, if_false]; rw [ht, hv2]
    rw [hpair]
    exact hcall

end Utcp
