import Utcp.Lemmas.HsCodec
/-!
# The four steps of a handshake, one lemma each: what each end does with the datagram the other end emitted
-/
namespace Utcp
open Gen

/-- a listener given a datagram that frames and parses as handshake data acts on exactly that data -/
theorem react_of_wire {T} (tm : TimeOps T) (mac : Mac) (e : Env) (rng : Rng) (l : LState T) (addr : String) (d : List UInt8)
    (bits rest : Bits) (s c : Nat) (hs : HsData)
    (h1 : readInit d = some bits) (h2 : readOutgoingHeader e bits = .ok (s, c, true) rest) (h3 : parseHandshake rest = some hs) :
    l.react tm mac e rng addr d = l.onHandshake tm mac e rng addr c hs := by
  unfold LState.react
  simp only [h1, h2, h3, Bool.not_true, Bool.false_eq_true, if_false]

/-- an endpoint given such a datagram runs `handshake_incoming` on exactly that data -/
theorem incoming_of_wire {T} (tm : TimeOps T) (e : Env) (rng : Rng) (ep : Endpoint) (d : List UInt8)
    (bits rest : Bits) (s c : Nat) (hs : HsData)
    (h1 : readInit d = some bits) (h2 : readOutgoingHeader e bits = .ok (s, c, true) rest) (h3 : parseHandshake rest = some hs) :
    ep.incoming tm e rng d =
      (if (ep.handshakeIncoming tm e rng hs c).2.2 != 0
        then ({ (ep.handshakeIncoming tm e rng hs c).1 with c := (ep.handshakeIncoming tm e rng hs c).1.c.markClose crPacketHandlerIncomingError },
              (ep.handshakeIncoming tm e rng hs c).2.1, false)
        else ((ep.handshakeIncoming tm e rng hs c).1, (ep.handshakeIncoming tm e rng hs c).2.1, true)) := by
  unfold Endpoint.incoming
  simp only [h1, h2, h3, if_true]

def zeroCookie : List UInt8 := List.replicate 20 0

/-- the initial datagram of a (not restarted) client with id `cid` whose send counter reads `cnt` -/
def initialPktG (e : Env) (rng : Rng) (cid cnt : Nat) : Rng × Bits :=
  capHandshake e rng 3 (hsPacket e 3 0 cid false ptInitial cnt e.checksum false 0 zeroCookie [])

/-- the first initial datagram of a client with id `cid` -/
def initialPkt (e : Env) (rng : Rng) (cid : Nat) : Rng × Bits := initialPktG e rng cid 0

/-- `SendInitialPacket` for a client that is not restarting -/
theorem sendInitial_step (e : Env) (rng : Rng) (ep : Endpoint) (ch : Challenge) (hch : ep.chal = some ch) (hr : ch.restarted = false) :
    ep.sendInitial e rng hsVersionLatest =
      ({ c := ep.c.emit (.out (bitsBytes (initialPktG e rng ch.clientId ch.sentCount).2)),
         chal := some { ch with sentCount := (ch.sentCount + 1) % 256, lastClientSendMs := e.nowMs } },
       (initialPktG e rng ch.clientId ch.sentCount).1) := by
  unfold Endpoint.sendInitial initialPktG
  simp only [hch, hr, hsVersionLatest, Gen.EHandshakeVersion_Latest]
  have h3 : (3 : Int).toNat = 3 := rfl
  simp only [h3]
  rw [hsPacket_eq]
  have := initial_eq e ch.clientId false ch.sentCount e.checksum
  simp only [zeroCookie]
  rw [← this]
  rfl

/-- step 1: `utcp_connect` -/
theorem connect_step (e : Env) (rng : Rng) (counter : Nat) (ep : Endpoint) :
    ep.connect e rng counter =
      ({ c := ({ (ep.c.emit (.alloc .chal)) with connected := false }).emit (.out (bitsBytes (initialPkt e rng ((counter + 1) % 8)).2)),
         chal := some { clientId := (counter + 1) % 8, sentCount := 1, lastClientSendMs := e.nowMs } },
       (initialPkt e rng ((counter + 1) % 8)).1, counter + 1) := by
  unfold Endpoint.connect Endpoint.sendInitial initialPkt initialPktG
  simp only [hsVersionLatest, Gen.EHandshakeVersion_Latest]
  have h3 : (3 : Int).toNat = 3 := rfl
  simp only [h3]
  rw [hsPacket_eq]
  have := initial_eq e ((counter + 1) % 8) false 0 e.checksum
  simp only [zeroCookie]
  rw [← this]
  rfl

/-- what the listener's parse of the initial datagram yields -/
def initialData (e : Env) (cnt : Nat := 0) : HsData :=
  { restart := false, minVer := 1, curVer := 3, netVer := e.checksum, ptype := ptInitial, sentCount := cnt, secretId := false, ts := 0,
    cookie := zeroCookie, origCookie := zeroCookie }

theorem initial_wire (e : Env) (rng : Rng) (cid cnt : Nat) (hm : e.magic < 2 ^ e.magicBits) (hck : e.checksum < 4294967296) (hcnt : cnt < 256) :
    ∃ bits rest, readInit (bitsBytes (initialPktG e rng cid cnt).2) = some bits ∧
      readOutgoingHeader e bits = .ok (0, cid % 8, true) rest ∧ parseHandshake rest = some (initialData e cnt) := by
  have := hs_wire e rng 0 cid false ptInitial cnt e.checksum false 0 zeroCookie hm (by simp [zeroCookie]) (by decide) hcnt hck
  exact this

/-- the challenge the listener issues at time `e`, in answer to a version-3 initial packet carrying network version `nv`, count `cnt` -/
def challengePkt {T} (tm : TimeOps T) (mac : Mac) (e : Env) (rng : Rng) (l : LState T) (addr : String) (cid cnt nv : Nat) : Rng × Bits :=
  capHandshake e rng 3 (hsPacket e 3 (e.travel % 4) cid false ptChallenge cnt nv (l.active != 0) (tm.toBits (tm.now e.elapsedUs))
    (l.cookie mac addr (l.active != 0) (tm.toBits (tm.now e.elapsedUs))) [])

/-- step 2: the listener answers an initial packet with a challenge, keeps no state and accepts nobody -/
theorem initial_step {T} (tm : TimeOps T) (mac : Mac) (e : Env) (rng : Rng) (l : LState T) (addr : String) (cid : Nat)
    (hz : tm.isZero (tm.ofBits 0) = true) (ha : addr.isEmpty = false) (e0 : Env) (he : e0.checksum = e.checksum) (cnt : Nat) :
    let r := l.onHandshake tm mac e rng addr cid (initialData e0 cnt)
    r.st = l ∧ r.code = 0 ∧ r.acc = none ∧ r.rng = (challengePkt tm mac e rng l addr cid cnt e.checksum).1 ∧
    r.evs = [.out (bitsBytes (challengePkt tm mac e rng l addr cid cnt e.checksum).2)] := by
  unfold LState.onHandshake initialData challengePkt
  simp only [hz, beq_self_eq_true, Bool.and_self, if_true, ha, Bool.false_eq_true, if_false, he]
  exact ⟨trivial, trivial, trivial, trivial, trivial⟩

/-- what the client's parse of that challenge yields -/
def challengeData {T} (tm : TimeOps T) (mac : Mac) (e : Env) (l : LState T) (addr : String) (cnt nv : Nat) : HsData :=
  { restart := false, minVer := 1, curVer := 3, netVer := nv, ptype := ptChallenge, sentCount := cnt, secretId := (l.active != 0),
    ts := tm.toBits (tm.now e.elapsedUs), cookie := l.cookie mac addr (l.active != 0) (tm.toBits (tm.now e.elapsedUs)), origCookie := zeroCookie }

theorem challenge_wire {T} (tm : TimeOps T) (mac : Mac) (e : Env) (rng : Rng) (l : LState T) (addr : String) (cid cnt nv : Nat)
    (hm : e.magic < 2 ^ e.magicBits) (hmac : ∀ k m, (mac k m).length = 20) (hcnt : cnt < 256) (hnv : nv < 4294967296) :
    ∃ bits rest, readInit (bitsBytes (challengePkt tm mac e rng l addr cid cnt nv).2) = some bits ∧
      readOutgoingHeader e bits = .ok (e.travel % 4 % 4, cid % 8, true) rest ∧ parseHandshake rest = some (challengeData tm mac e l addr cnt nv) := by
  exact hs_wire e rng (e.travel % 4) cid false ptChallenge cnt nv _ _ _ hm (hmac _ _) (by decide) hcnt hnv

/-- the response of a (not restarted) client with id `cid` and send counter `cnt`, echoing secret id, timestamp and cookie -/
def responsePktG (e : Env) (rng : Rng) (cid cnt : Nat) (sid : Bool) (ts : UInt64) (ck : List UInt8) : Rng × Bits :=
  capHandshake e rng 3 (hsPacket e 3 0 cid false ptResponse cnt e.checksum sid ts ck [])

/-- the response a client in state `ch` sends to challenge data `hs` -/
def responsePkt (e : Env) (rng : Rng) (ch : Challenge) (hs : HsData) : Rng × Bits :=
  responsePktG e rng ch.clientId ch.sentCount hs.secretId hs.ts hs.cookie

/-- `SendChallengeResponse` for a client that is not restarting -/
theorem sendResponse_step (e : Env) (rng : Rng) (ep : Endpoint) (ch : Challenge) (sid : Bool) (ts : UInt64) (ck : List UInt8)
    (hch : ep.chal = some ch) (hr : ch.restarted = false) :
    ep.sendResponse e rng sid ts ck =
      ({ c := ep.c.emit (.out (bitsBytes (responsePktG e rng ch.clientId ch.sentCount sid ts ck).2)),
         chal := some { ch with sentCount := (ch.sentCount + 1) % 256, lastClientSendMs := e.nowMs, lastSecretId := sid, lastTs := ts, lastCookie := ck } },
       (responsePktG e rng ch.clientId ch.sentCount sid ts ck).1) := by
  unfold Endpoint.sendResponse responsePktG
  simp only [hch, hr, Bool.false_eq_true, if_false, hsVersionLatest, Gen.EHandshakeVersion_Latest]
  rfl

/-- step 3: a client that has not completed the handshake answers a challenge with the response echoing its secret id, timestamp
and cookie -/
theorem challenge_step {T} (tm : TimeOps T) (e : Env) (rng : Rng) (ep : Endpoint) (ch : Challenge) (hs : HsData) (cid : Nat)
    (hch : ep.chal = some ch) (hst : ch.state = stUnInit ∨ ch.state = stLocal) (hr : ch.restarted = false)
    (hrs : hs.restart = false) (hpt : hs.ptype = ptChallenge) (hpos : tm.gt0 (tm.ofBits hs.ts) = true) :
    ep.handshakeIncoming tm e rng hs cid =
      ({ c := ep.c.emit (.out (bitsBytes (responsePkt e rng ch hs).2)),
         chal := some { ch with lastChallengeMs := e.nowMs, sentCount := (ch.sentCount + 1) % 256, lastClientSendMs := e.nowMs,
                                lastSecretId := hs.secretId, lastTs := hs.ts, lastCookie := hs.cookie, state := stLocal } },
       (responsePkt e rng ch hs).1, 0) := by
  unfold Endpoint.handshakeIncoming
  have h1 : (ch.state == stUnInit || ch.state == stLocal) = true := by
    rcases hst with h | h <;> rw [h] <;> decide
  simp only [hch, h1, if_true, hrs, Bool.false_eq_true, if_false, hpt, beq_self_eq_true, hpos, Bool.and_self]
  unfold Endpoint.sendResponse responsePkt responsePktG
  simp only [hr, Bool.false_eq_true, if_false, hsVersionLatest, Gen.EHandshakeVersion_Latest]
  rfl

/-- what the listener's parse of a response yields -/
def responseDataG (e : Env) (cnt : Nat) (sid : Bool) (ts : UInt64) (ck : List UInt8) : HsData :=
  { restart := false, minVer := 1, curVer := 3, netVer := e.checksum, ptype := ptResponse, sentCount := cnt, secretId := sid,
    ts := ts, cookie := ck, origCookie := zeroCookie }

def responseData (e : Env) (ch : Challenge) (hs : HsData) : HsData := responseDataG e ch.sentCount hs.secretId hs.ts hs.cookie

theorem response_wireG (e : Env) (rng : Rng) (cid cnt : Nat) (sid : Bool) (ts : UInt64) (ck : List UInt8)
    (hm : e.magic < 2 ^ e.magicBits) (hc : ck.length = 20) (hcnt : cnt < 256) (hck : e.checksum < 4294967296) :
    ∃ bits rest, readInit (bitsBytes (responsePktG e rng cid cnt sid ts ck).2) = some bits ∧
      readOutgoingHeader e bits = .ok (0, cid % 8, true) rest ∧ parseHandshake rest = some (responseDataG e cnt sid ts ck) := by
  exact hs_wire e rng 0 cid false ptResponse cnt e.checksum _ _ _ hm hc (by decide) hcnt hck

theorem response_wire (e : Env) (rng : Rng) (ch : Challenge) (hs : HsData)
    (hm : e.magic < 2 ^ e.magicBits) (hc : hs.cookie.length = 20) (hcnt : ch.sentCount < 256) (hck : e.checksum < 4294967296) :
    ∃ bits rest, readInit (bitsBytes (responsePkt e rng ch hs).2) = some bits ∧
      readOutgoingHeader e bits = .ok (0, ch.clientId % 8, true) rest ∧ parseHandshake rest = some (responseData e ch hs) :=
  response_wireG e rng ch.clientId ch.sentCount _ _ _ hm hc hcnt hck

/-- the ack the listener sends when it accepts response data `hs` -/
def ackPkt (e : Env) (rng : Rng) (cid : Nat) (hs : HsData) : Rng × Bits :=
  capHandshake e rng 3 (hsPacket e 3 (e.travel % 4) cid false ptAck hs.sentCount hs.netVer true 0xBFF0000000000000 hs.cookie [])

/-- step 4: a response whose timestamp passes the lifetime and rotation tests and whose cookie is the one this listener state issues
for this address is accepted: the application is told, with the sequence numbers the cookie determines, and the ack goes out -/
theorem response_step {T} (tm : TimeOps T) (mac : Mac) (e : Env) (rng : Rng) (l : LState T) (addr : String) (cid : Nat) (hs : HsData)
    (hpt : hs.ptype = ptResponse) (hrs : hs.restart = false) (hv : hs.curVer = 3) (ha : addr.isEmpty = false)
    (hlife : LState.validLife tm e hs = true) (hsec : l.validSecret tm hs = true)
    (hck : hs.cookie = l.cookie mac addr hs.secretId hs.ts) :
    let r := l.onHandshake tm mac e rng addr cid hs
    r.code = 0 ∧ r.rng = (ackPkt e rng cid hs).1 ∧
    r.acc = some { addr := addr, restarted := false, cookie := hs.cookie, serverSeq := seqFromCookie hs.cookie 0, clientSeq := seqFromCookie hs.cookie 1 } ∧
    r.evs = [.accept false addr, .out (bitsBytes (ackPkt e rng cid hs).2)] := by
  have hdec : l.decision tm mac e addr hs = 0 := by
    unfold LState.decision LState.cookieOk
    rw [hlife, hsec, ← hck]
    simp
  unfold LState.onHandshake ackPkt
  have hne : (hs.ptype == ptInitial) = false := by rw [hpt]; decide
  simp only [hne, Bool.false_and, Bool.false_eq_true, if_false, hdec, bne_self_eq_false, hrs, hv, ha]
  exact ⟨trivial, trivial, trivial, trivial⟩

/-- what the client's parse of that ack yields -/
def ackData (hs : HsData) : HsData :=
  { restart := false, minVer := 1, curVer := 3, netVer := hs.netVer, ptype := ptAck, sentCount := hs.sentCount, secretId := true,
    ts := 0xBFF0000000000000, cookie := hs.cookie, origCookie := zeroCookie }

theorem ack_wire (e : Env) (rng : Rng) (cid : Nat) (hs : HsData)
    (hm : e.magic < 2 ^ e.magicBits) (hc : hs.cookie.length = 20) (hcnt : hs.sentCount < 256) (hnv : hs.netVer < 4294967296) :
    ∃ bits rest, readInit (bitsBytes (ackPkt e rng cid hs).2) = some bits ∧
      readOutgoingHeader e bits = .ok (e.travel % 4 % 4, cid % 8, true) rest ∧ parseHandshake rest = some (ackData hs) := by
  exact hs_wire e rng (e.travel % 4) cid false ptAck hs.sentCount hs.netVer _ _ _ hm hc (by decide) hcnt hnv

/-- step 5: the ack completes the client's handshake -/
theorem ack_step {T} (tm : TimeOps T) (e : Env) (rng : Rng) (ep : Endpoint) (ch : Challenge) (hs : HsData) (cid : Nat)
    (hch : ep.chal = some ch) (hst : ch.state = stUnInit ∨ ch.state = stLocal)
    (hrs : hs.restart = false) (hpt : hs.ptype = ptAck) (hneg : tm.lt0 (tm.ofBits hs.ts) = true) :
    ep.handshakeIncoming tm e rng hs cid = (ep.onAck e ch hs, rng, 0) := by
  unfold Endpoint.handshakeIncoming
  have h1 : (ch.state == stUnInit || ch.state == stLocal) = true := by
    rcases hst with h | h <;> rw [h] <;> decide
  have h2 : (ptAck == ptChallenge) = false := by decide
  simp only [hch, h1, if_true, hrs, Bool.false_eq_true, if_false, hpt, h2, Bool.false_and, beq_self_eq_true, hneg, Bool.and_self]

/-! ## retransmission (`handshake_update`) -/

/-- the retransmission timer of a pending handshake has fired: something was sent before, at least a second ago -/
def retryDue (e : Env) (ch : Challenge) : Prop := ch.lastClientSendMs ≠ 0 ∧ e.nowMs - ch.lastClientSendMs ≥ 1000

/-- the challenge the client holds is older than `MIN_COOKIE_LIFETIME` (or it never held one) -/
def chalExpired (e : Env) (ch : Challenge) : Prop := e.nowMs - ch.lastChallengeMs > Gen.MIN_COOKIE_LIFETIME_S * 1000

/-- a client without a usable challenge starts over: it re-sends the initial packet -/
theorem update_retry_initial {T} (tm : TimeOps T) (e : Env) (rng : Rng) (ep : Endpoint) (ch : Challenge)
    (hch : ep.chal = some ch) (hr : ch.restarted = false) (hdue : retryDue e ch) (hst : ch.state = stUnInit ∨ chalExpired e ch) :
    ep.handshakeUpdate tm e rng =
      ({ c := ep.c.emit (.out (bitsBytes (initialPktG e rng ch.clientId ch.sentCount).2)),
         chal := some { ch with state := stUnInit, sentCount := (ch.sentCount + 1) % 256, lastClientSendMs := e.nowMs } },
       (initialPktG e rng ch.clientId ch.sentCount).1) := by
  unfold Endpoint.handshakeUpdate
  obtain ⟨hd1, hd2⟩ := hdue
  have h1 : (ch.lastClientSendMs == 0) = false := by simpa using hd1
  have h2 : ¬ (e.nowMs - ch.lastClientSendMs < 1000) := by omega
  simp only [hch, h1, Bool.false_eq_true, if_false, h2]
  by_cases hx : e.nowMs - ch.lastChallengeMs > Gen.MIN_COOKIE_LIFETIME_S * 1000
  · simp only [hx, decide_true, if_true, beq_self_eq_true]
    rw [sendInitial_step e rng _ { ch with state := stUnInit } rfl hr]
  · have hs : ch.state = stUnInit := by
      rcases hst with h | h
      · exact h
      · exact absurd h hx
    simp only [hx, decide_false, Bool.false_eq_true, if_false, hs, beq_self_eq_true, if_true]
    rw [sendInitial_step e rng _ ch rfl hr]
    cases ch
    simp only at hs
    simp only [hs]

/-- a client holding a fresh challenge re-sends its response, with the stored secret id, timestamp and cookie -/
theorem update_retry_response {T} (tm : TimeOps T) (e : Env) (rng : Rng) (ep : Endpoint) (ch : Challenge)
    (hch : ep.chal = some ch) (hr : ch.restarted = false) (hdue : retryDue e ch) (hst : ch.state = stLocal) (hx : ¬ chalExpired e ch)
    (hnz : tm.isZero (tm.ofBits ch.lastTs) = false) :
    ep.handshakeUpdate tm e rng =
      ({ c := ep.c.emit (.out (bitsBytes (responsePktG e rng ch.clientId ch.sentCount ch.lastSecretId ch.lastTs ch.lastCookie).2)),
         chal := some { ch with sentCount := (ch.sentCount + 1) % 256, lastClientSendMs := e.nowMs } },
       (responsePktG e rng ch.clientId ch.sentCount ch.lastSecretId ch.lastTs ch.lastCookie).1) := by
  unfold Endpoint.handshakeUpdate
  obtain ⟨hd1, hd2⟩ := hdue
  have h1 : (ch.lastClientSendMs == 0) = false := by simpa using hd1
  have h2 : ¬ (e.nowMs - ch.lastClientSendMs < 1000) := by omega
  unfold chalExpired at hx
  have h3 : (stLocal == stUnInit) = false := by decide
  simp only [hch, h1, Bool.false_eq_true, if_false, h2, hx, decide_false, hst, h3, beq_self_eq_true, hnz, Bool.not_false, Bool.and_self, if_true]
  rw [sendResponse_step e rng _ ch _ _ _ rfl hr]
  simp only [hst]

end Utcp
