import Utcp.Lemmas.Keeps
import Utcp.Lemmas.RecvKeeps
/-!
# The order in which reliable bunches are handed to the application

`relLog ch log`: the channel sequence numbers of the reliable bunches of channel `ch` that the log says were delivered
(`on_recv_bunch`), oldest first.  `RecvInv c`: for every open channel, these numbers followed by the numbers of the
reliable fragments still being assembled are strictly increasing and bounded by the channel's `InReliable`; nothing was
ever delivered on a channel that does not exist.  The invariant is preserved by `ReceivedPacket` on any bit string (and by
everything the sending machinery does), so no reliable bunch is delivered twice or out of order — whatever the network
does.
-/
namespace Utcp
open Gen

/-! ### sequences in a log -/

def relOf (ch : Nat) (g : List Bunch) : List Int := (g.filter (fun b => b.bReliable && b.chIndex == ch)).map (·.chSeq)

/-- the log is newest first; the result is oldest first -/
def relLog (ch : Nat) : List Event → List Int
  | [] => []
  | .recv g :: rest => relLog ch rest ++ relOf ch g
  | _ :: rest => relLog ch rest

theorem relLog_append (ch : Nat) (a b : List Event) : relLog ch (a ++ b) = relLog ch b ++ relLog ch a := by
  induction a with
  | nil => simp [relLog]
  | cons ev rest ih =>
    cases ev <;> simp [relLog, ih, List.append_assoc]

theorem relLog_nonrecv (ch : Nat) (l : List Event) (h : ∀ ev ∈ l, isRecv ev = false) : relLog ch l = [] := by
  induction l with
  | nil => rfl
  | cons ev rest ih =>
    have h1 := h ev List.mem_cons_self
    have h2 := ih (fun e he => h e (List.mem_cons_of_mem _ he))
    cases ev <;> simp_all [relLog, isRecv]

theorem relLog_of_adds {P : Event → Prop} {c c' : Conn} (ch : Nat) (h : Adds P c c') (hp : ∀ ev, P ev → isRecv ev = false) :
    relLog ch c'.log = relLog ch c.log := by
  obtain ⟨new, hlog, hnew⟩ := h
  rw [hlog, relLog_append, relLog_nonrecv ch new (fun ev he => hp ev (hnew ev he))]
  simp

theorem relOf_append (ch : Nat) (a b : List Bunch) : relOf ch (a ++ b) = relOf ch a ++ relOf ch b := by
  simp [relOf]

theorem relOf_other (ch ch' : Nat) (g : List Bunch) (h : ∀ f ∈ g, f.chIndex = ch') (hne : ch ≠ ch') : relOf ch g = [] := by
  unfold relOf
  rw [List.map_eq_nil_iff, List.filter_eq_nil_iff]
  intro f hf
  have := h f hf
  simp [this]; intro _; exact fun h' => hne h'.symm

/-- strictly increasing and bounded by `m` -/
def Below (l : List Int) (m : Int) : Prop := l.Pairwise (· < ·) ∧ ∀ s ∈ l, s ≤ m

theorem Below.nil (m : Int) : Below [] m := ⟨List.Pairwise.nil, by simp⟩

theorem Below.mono {l : List Int} {m m' : Int} (h : Below l m) (hm : m ≤ m') : Below l m' :=
  ⟨h.1, fun s hs => Int.le_trans (h.2 s hs) hm⟩

theorem Below.snoc {l : List Int} {m s : Int} (h : Below l m) (hs : m < s) : Below (l ++ [s]) s := by
  refine ⟨?_, ?_⟩
  · rw [List.pairwise_append]
    refine ⟨h.1, by simp, ?_⟩
    intro a ha b hb
    simp at hb; subst hb
    have := h.2 a ha; omega
  · intro a ha
    rcases List.mem_append.mp ha with ha | ha
    · have := h.2 a ha; omega
    · simp at ha; omega

theorem Below.prefix {l1 l2 : List Int} {m : Int} (h : Below (l1 ++ l2) m) : Below l1 m :=
  ⟨(List.pairwise_append.mp h.1).1, fun s hs => h.2 s (List.mem_append_left _ hs)⟩

/-! ### what the rest of the library leaves alone -/

def recvPart (x : Channel) : List Bunch × List Bunch × Int := (x.inPartial, x.inRec, x.inReliable)

structure RSame (c c' : Conn) : Prop where
  chan : ∀ ch, (c'.getChan ch).map recvPart = (c.getChan ch).map recvPart
  log : ∀ ch, relLog ch c'.log = relLog ch c.log

theorem RSame.refl (c : Conn) : RSame c c := ⟨fun _ => rfl, fun _ => rfl⟩
theorem RSame.trans {a b c : Conn} (h1 : RSame a b) (h2 : RSame b c) : RSame a c :=
  ⟨fun ch => (h2.chan ch).trans (h1.chan ch), fun ch => (h2.log ch).trans (h1.log ch)⟩

theorem RSame.of_chans {P : Event → Prop} {c c' : Conn} (hc : c'.chans = c.chans) (ha : Adds P c c') (hp : ∀ ev, P ev → isRecv ev = false) : RSame c c' :=
  ⟨fun ch => by unfold Conn.getChan; rw [hc], fun ch => relLog_of_adds ch ha hp⟩

theorem isOut_not_recv (ev : Event) (h : isOut ev) : isRecv ev = false := by cases ev <;> simp_all [isOut, isRecv]
theorem isFreeNode_not_recv (ev : Event) (h : isFreeNode ev) : isRecv ev = false := by
  cases ev with
  | recv g => simp [isFreeNode] at h
  | _ => rfl

theorem setChan_rsame (c : Conn) (ch : Nat) (x x' : Channel) (h : c.getChan ch = some x) (hp : recvPart x' = recvPart x) : RSame c (c.setChan ch x') := by
  refine ⟨?_, fun _ => rfl⟩
  intro ch'
  by_cases he : ch' = ch
  · subst he; rw [getChan_setChan_self, h]; simp [hp]
  · rw [getChan_setChan_other _ _ _ _ he]

theorem flush_chans (e : Env) (c : Conn) : (c.flush e).chans = c.chans := by
  unfold Conn.flush
  split
  · rfl
  · split <;> simp

theorem prepareWrite_chans (e : Env) (c : Conn) (n : Nat) : (c.prepareWrite e n).chans = c.chans := by
  unfold Conn.prepareWrite
  dsimp only
  split
  · split
    · simp [flush_chans]
    · exact flush_chans e c
  · split
    · simp
    · rfl

theorem writeInternal_chans (e : Env) (c : Conn) (bits : Bits) : (c.writeInternal e bits).1.chans = c.chans := by
  unfold Conn.writeInternal
  dsimp only
  split
  · rw [flush_chans]
  · rfl

theorem writeBits_chans (e : Env) (c : Conn) (bits : Bits) : (c.writeBits e bits).1.chans = c.chans := by
  unfold Conn.writeBits
  rw [writeInternal_chans, prepareWrite_chans]

theorem writeBits_rsame (e : Env) (c : Conn) (bits : Bits) : RSame c (c.writeBits e bits).1 :=
  RSame.of_chans (writeBits_chans e c bits) (writeBits_adds e c bits) isOut_not_recv

theorem resendNodes_rsame (e : Env) (ch : Nat) (nodes : List OutNode) : ∀ c : Conn, RSame c (c.resendNodes e ch nodes) := by
  induction nodes with
  | nil => intro c; exact RSame.refl _
  | cons n rest ih =>
    intro c
    unfold Conn.resendNodes
    dsimp only
    refine (writeBits_rsame e c n.bits).trans (RSame.trans ?_ (ih _))
    split
    · exact RSame.refl _
    · rename_i x hx
      exact setChan_rsame _ ch x _ hx rfl

theorem onNakChans_rsame (e : Env) (pid : Int) (chs : List Nat) : ∀ c : Conn, RSame c (c.onNakChans e pid chs) := by
  induction chs with
  | nil => intro c; exact RSame.refl _
  | cons ch rest ih =>
    intro c
    unfold Conn.onNakChans
    split
    · exact ih c
    · rename_i x hx
      dsimp only
      exact ((setChan_rsame c ch x { x with outRec := (removeOutgoing pid x.outRec).2 } hx rfl).trans (resendNodes_rsame e ch _ _)).trans (ih _)

theorem foldl_emit_rsame {α} (ev : Event) (hev : isRecv ev = false) (l : List α) : ∀ c : Conn, RSame c (l.foldl (fun c _ => c.emit ev) c) := by
  induction l with
  | nil => intro c; exact RSame.refl _
  | cons _ rest ih =>
    intro c
    refine RSame.trans ?_ (ih _)
    refine ⟨fun _ => rfl, fun ch => ?_⟩
    cases ev <;> simp_all [relLog, isRecv, Conn.emit]

theorem emit_rsame (c : Conn) (ev : Event) (hev : isRecv ev = false) : RSame c (c.emit ev) := by
  refine ⟨fun _ => rfl, fun ch => ?_⟩
  cases ev <;> simp_all [relLog, isRecv, Conn.emit]

theorem onAckChans_rsame (pid : Int) (chs : List Nat) : ∀ c : Conn, RSame c (c.onAckChans pid chs) := by
  induction chs with
  | nil => intro c; exact RSame.refl _
  | cons ch rest ih =>
    intro c
    unfold Conn.onAckChans
    split
    · exact ih c
    · rename_i x hx
      dsimp only
      exact ((setChan_rsame c ch x { x with outRec := (removeOutgoing pid x.outRec).2 } hx rfl).trans (foldl_emit_rsame _ rfl _ _)).trans (ih _)

theorem rsame_of_eq (c c' : Conn) (h1 : c'.chans = c.chans) (h2 : c'.log = c.log) : RSame c c' :=
  ⟨fun ch => by unfold Conn.getChan; rw [h1], fun ch => by rw [h2]⟩

theorem handleNotification_rsame (e : Env) (c : Conn) (v : Int × Bool) : RSame c (c.handleNotification e v) := by
  unfold Conn.handleNotification
  dsimp only
  split
  · exact rsame_of_eq _ _ rfl rfl
  · split
    · exact ((rsame_of_eq c { c with lastNotified := c.lastNotified + 1, outAckPacketId := c.lastNotified + 1 } rfl rfl).trans (onAckChans_rsame _ _ _)).trans (emit_rsame _ _ rfl)
    · exact ((rsame_of_eq c { c with lastNotified := c.lastNotified + 1 } rfl rfl).trans (onNakChans_rsame e _ _ _)).trans (emit_rsame _ _ rfl)

/-- `packet_notify_update` without the two final field assignments -/
def notifyCore (e : Env) (c : Conn) (h : NotifHeader) : Conn :=
  if seq_num_greater_than h.ackedSeq c.notify.outAckSeq then
    (verdicts c.notify.outAckSeq h (seq_num_diff h.ackedSeq c.notify.outAckSeq).toNat).foldl (Conn.handleNotification e)
      { c with notify := c.notify.updateInAckSeqAck (seq_num_diff h.ackedSeq c.notify.outAckSeq).toNat h.ackedSeq }
  else c

theorem notifyUpdate_core (e : Env) (c : Conn) (h : NotifHeader) :
    (c.notifyUpdate e h).chans = (notifyCore e c h).chans ∧ (c.notifyUpdate e h).log = (notifyCore e c h).log := by
  unfold Conn.notifyUpdate notifyCore
  dsimp only
  split <;> exact ⟨rfl, rfl⟩

theorem notifyUpdate_rsame (e : Env) (c : Conn) (h : NotifHeader) : RSame c (c.notifyUpdate e h) := by
  obtain ⟨h1, h2⟩ := notifyUpdate_core e c h
  refine RSame.trans ?_ (rsame_of_eq _ _ h1 h2)
  unfold notifyCore
  have hfold : ∀ (vs : List (Int × Bool)) (c : Conn), RSame c (vs.foldl (Conn.handleNotification e) c) := by
    intro vs
    induction vs with
    | nil => intro c; exact RSame.refl _
    | cons v rest ih => intro c; exact (handleNotification_rsame e c v).trans (ih _)
  split
  · exact (rsame_of_eq c { c with notify := c.notify.updateInAckSeqAck (seq_num_diff h.ackedSeq c.notify.outAckSeq).toNat h.ackedSeq } rfl rfl).trans (hfold _ _)
  · exact RSame.refl _

/-! ### the invariant -/

def chanRecv (c : Conn) (ch : Nat) : Option (List Bunch × List Bunch × Int) := (c.getChan ch).map recvPart

/-- the receive side of channel `ch`, `t = (InPartialBunch, InRec, InReliable)`, against the deliveries `relL` logged so far -/
structure CInv (ch : Nat) (t : List Bunch × List Bunch × Int) (relL : List Int) : Prop where
  /-- delivered reliable bunches: strictly increasing sequence numbers, none above `InReliable` -/
  dl : Below relL t.2.2
  /-- a reliable group that can still be completed continues the delivered sequence -/
  live : ∀ last, t.1.getLast? = some last → last.bReliable = true → last.chSeq = t.2.2 → Below (relL ++ relOf ch t.1) t.2.2
  bound : ∀ f ∈ t.1, f.bReliable = true → f.chSeq ≤ t.2.2
  homo : ∀ last, t.1.getLast? = some last → ∀ f ∈ t.1, f.bReliable = last.bReliable
  part : ∀ f ∈ t.1, f.chIndex = ch
  queue : ∀ q ∈ t.2.1, q.chIndex = ch ∧ q.bReliable = true
  /-- the out-of-order queue stays below `UTCP_RELIABLE_BUFFER` -/
  qlen : t.2.1.length < reliableBuffer

structure RecvInv (c : Conn) : Prop where
  chans : ∀ ch t, chanRecv c ch = some t → CInv ch t (relLog ch c.log)
  absent : ∀ ch, chanRecv c ch = none → relLog ch c.log = []

theorem RecvInv.of_rsame {c c' : Conn} (h : RecvInv c) (hs : RSame c c') : RecvInv c' := by
  refine ⟨?_, ?_⟩
  · intro ch t ht
    have : chanRecv c ch = some t := by unfold chanRecv at ht ⊢; rw [← hs.chan ch]; exact ht
    rw [hs.log ch]; exact h.chans ch t this
  · intro ch hn
    have : chanRecv c ch = none := by unfold chanRecv at hn ⊢; rw [← hs.chan ch]; exact hn
    rw [hs.log ch]; exact h.absent ch this

/-- only channel `ch` and the deliveries of channel `ch` may differ -/
structure Upd (ch : Nat) (c c' : Conn) : Prop where
  chan : ∀ ch', ch' ≠ ch → chanRecv c' ch' = chanRecv c ch'
  log : ∀ ch', ch' ≠ ch → relLog ch' c'.log = relLog ch' c.log

theorem Upd.refl (ch : Nat) (c : Conn) : Upd ch c c := ⟨fun _ _ => rfl, fun _ _ => rfl⟩
theorem Upd.trans {ch : Nat} {a b c : Conn} (h1 : Upd ch a b) (h2 : Upd ch b c) : Upd ch a c :=
  ⟨fun ch' hne => (h2.chan ch' hne).trans (h1.chan ch' hne), fun ch' hne => (h2.log ch' hne).trans (h1.log ch' hne)⟩
theorem Upd.of_rsame {ch : Nat} {c c' : Conn} (h : RSame c c') : Upd ch c c' :=
  ⟨fun ch' _ => by unfold chanRecv; exact h.chan ch', fun ch' _ => h.log ch'⟩
theorem setChan_upd (c : Conn) (ch : Nat) (x : Channel) : Upd ch c (c.setChan ch x) :=
  ⟨fun ch' hne => by unfold chanRecv; rw [getChan_setChan_other _ _ _ _ hne], fun _ _ => rfl⟩
theorem emit_recv_upd (c : Conn) (ch : Nat) (g : List Bunch) (hg : ∀ f ∈ g, f.chIndex = ch) : Upd ch c (c.emit (.recv g)) :=
  ⟨fun _ _ => rfl, fun ch' hne => by show relLog ch' c.log ++ relOf ch' g = relLog ch' c.log; rw [relOf_other ch' ch g hg hne]; simp⟩

theorem RecvInv.update {c c' : Conn} (ch : Nat) (h : RecvInv c) (hu : Upd ch c c')
    (hch : ∀ t, chanRecv c' ch = some t → CInv ch t (relLog ch c'.log)) (hnone : chanRecv c' ch = none → relLog ch c'.log = []) : RecvInv c' := by
  refine ⟨?_, ?_⟩
  · intro ch' t ht
    by_cases he : ch' = ch
    · subst he; exact hch t ht
    · rw [hu.log ch' he]; exact h.chans ch' t (by rw [← hu.chan ch' he]; exact ht)
  · intro ch' hn
    by_cases he : ch' = ch
    · subst he; exact hnone hn
    · rw [hu.log ch' he]; exact h.absent ch' (by rw [← hu.chan ch' he]; exact hn)

@[simp] theorem chanRecv_setChan (c : Conn) (ch : Nat) (x : Channel) : chanRecv (c.setChan ch x) ch = some (recvPart x) := by
  unfold chanRecv; rw [getChan_setChan_self]; rfl
@[simp] theorem chanRecv_emit (c : Conn) (ev : Event) (ch : Nat) : chanRecv (c.emit ev) ch = chanRecv c ch := rfl
@[simp] theorem relLog_emit_recv (c : Conn) (g : List Bunch) (ch : Nat) : relLog ch (c.emit (.recv g)).log = relLog ch c.log ++ relOf ch g := rfl
@[simp] theorem relLog_emit_free (c : Conn) (k : Kind) (ch : Nat) : relLog ch (c.emit (.free k)).log = relLog ch c.log := rfl
@[simp] theorem relLog_emit_alloc (c : Conn) (k : Kind) (ch : Nat) : relLog ch (c.emit (.alloc k)).log = relLog ch c.log := rfl
@[simp] theorem relLog_setChan (c : Conn) (ch' : Nat) (x : Channel) (ch : Nat) : relLog ch (c.setChan ch' x).log = relLog ch c.log := rfl

theorem markClosed_recvPart (x : Channel) (r : Nat) : recvPart (x.markClosed r) = recvPart x := by
  unfold Channel.markClosed; split <;> rfl

theorem markClose_rsame (c : Conn) (r : Nat) : RSame c (c.markClose r) :=
  rsame_of_eq _ _ (markClose_chans c r) (markClose_log c r)

theorem freeNodes_rsame (c : Conn) (k : Nat) : RSame c (c.freeNodes k) := by
  unfold Conn.freeNodes; exact foldl_emit_rsame _ rfl _ _

theorem noteClose_rsame (c : Conn) (b : Bunch) : RSame c (c.noteClose b) := by
  unfold Conn.noteClose
  split
  · exact RSame.refl _
  · dsimp only
    have hc : RSame c (if (b.chIndex == 0) = true then c.markClose crControlChannelClose else c) := by
      split
      · exact markClose_rsame _ _
      · exact RSame.refl _
    generalize (if (b.chIndex == 0) = true then c.markClose crControlChannelClose else c) = c' at *
    split
    · exact hc
    · rename_i x hx
      exact (hc.trans (setChan_rsame c' _ x (x.markClosed b.closeReason) hx (markClosed_recvPart _ _))).trans (rsame_of_eq _ _ rfl rfl)

theorem foldl_noteClose_rsame (g : List Bunch) : ∀ c : Conn, RSame c (g.foldl Conn.noteClose c) := by
  induction g with
  | nil => intro c; exact RSame.refl _
  | cons b rest ih => intro c; exact (noteClose_rsame c b).trans (ih _)

/-! ### one channel, one bunch -/

theorem relOf_single_rel (ch : Nat) (b : Bunch) (hr : b.bReliable = true) (hc : b.chIndex = ch) : relOf ch [b] = [b.chSeq] := by
  simp [relOf, hr, hc]

theorem relOf_single_unrel (ch : Nat) (b : Bunch) (hr : b.bReliable = false) : relOf ch [b] = [] := by
  simp [relOf, hr]

theorem relOf_unrel (ch : Nat) (g : List Bunch) (h : ∀ f ∈ g, f.bReliable = false) : relOf ch g = [] := by
  unfold relOf
  rw [List.map_eq_nil_iff, List.filter_eq_nil_iff]
  intro f hf; simp [h f hf]

/-- the new `InReliable` after bunch `b` was taken as the next one -/
def nextRel (r : Int) (b : Bunch) : Int := if b.bReliable then b.chSeq else r

/-- the fragment list is left alone (refused fragment) -/
theorem cinv_keep (ch : Nat) (P Q : List Bunch) (r : Int) (relL : List Int) (b : Bunch) (h : CInv ch (P, Q, r) relL)
    (hn : b.bReliable = true → b.chSeq = r + 1) : CInv ch (P, Q, nextRel r b) relL := by
  unfold nextRel
  by_cases hr : b.bReliable = true
  · simp only [hr, if_true]
    have hb := hn hr
    refine ⟨h.dl.mono (by simp only; omega), ?_, ?_, h.homo, h.part, h.queue, h.qlen⟩
    · intro last hl hlr hls
      have hmem : last ∈ P := List.mem_of_getLast? hl
      have := h.bound last hmem hlr
      simp only at hls this; omega
    · intro f hf hfr; have := h.bound f hf hfr; simp only at this ⊢; omega
  · have : b.bReliable = false := by simpa using hr
    simp only [this, Bool.false_eq_true, if_false]; exact h

/-- the fragment list is emptied (discarded group) -/
theorem cinv_clear (ch : Nat) (P Q : List Bunch) (r r' : Int) (relL : List Int) (h : CInv ch (P, Q, r) relL) (hr : r ≤ r') : CInv ch ([], Q, r') relL :=
  ⟨h.dl.mono hr, by intro last hl; simp at hl, by intro f hf; simp at hf, by intro last hl; simp at hl, by intro f hf; simp at hf, h.queue, h.qlen⟩

/-- an initial fragment starts a new group -/
theorem cinv_start (ch : Nat) (P Q : List Bunch) (r : Int) (relL : List Int) (b : Bunch) (h : CInv ch (P, Q, r) relL)
    (hc : b.chIndex = ch) (hn : b.bReliable = true → b.chSeq = r + 1) : CInv ch ([b], Q, nextRel r b) relL := by
  unfold nextRel
  by_cases hr : b.bReliable = true
  · simp only [hr, if_true]
    have hb := hn hr
    refine ⟨h.dl.mono (by simp only; omega), ?_, ?_, ?_, ?_, h.queue, h.qlen⟩
    · intro last hl _ _
      simp only [relOf_single_rel ch b hr hc]
      exact h.dl.snoc (by simp only; omega)
    · intro f hf _; simp at hf; subst hf; simp
    · intro last hl f hf; simp at hl hf; subst hl; subst hf; rfl
    · intro f hf; simp at hf; subst hf; exact hc
  · have hr' : b.bReliable = false := by simpa using hr
    simp only [hr', Bool.false_eq_true, if_false]
    refine ⟨h.dl, ?_, ?_, ?_, ?_, h.queue, h.qlen⟩
    · intro last hl hlr; simp at hl; subst hl; simp [hr'] at hlr
    · intro f hf hfr; simp at hf; subst hf; simp [hr'] at hfr
    · intro last hl f hf; simp at hl hf; subst hl; subst hf; rfl
    · intro f hf; simp at hf; subst hf; exact hc

/-- a follow-up fragment is appended to the group it continues -/
theorem cinv_append (ch : Nat) (P Q : List Bunch) (r : Int) (relL : List Int) (b last : Bunch) (h : CInv ch (P, Q, r) relL)
    (hl : P.getLast? = some last) (hm : canMerge last b = true) (hc : b.chIndex = ch) (hn : b.bReliable = true → b.chSeq = r + 1) :
    CInv ch (P ++ [b], Q, nextRel r b) relL := by
  have hlm : last ∈ P := List.mem_of_getLast? hl
  unfold canMerge at hm
  simp only [Bool.and_eq_true, Bool.not_eq_true', beq_iff_eq] at hm
  obtain ⟨⟨_, hseq⟩, hrel⟩ := hm
  have hlast' : (P ++ [b]).getLast? = some b := by simp
  unfold nextRel
  by_cases hr : b.bReliable = true
  · simp only [hr, if_true]
    have hb := hn hr
    have hlr : last.bReliable = true := by rw [hrel]; exact hr
    have hls : last.chSeq = r := by
      unfold seqMatches at hseq; simp only [hr, if_true, beq_iff_eq] at hseq; omega
    have hold := h.live last hl hlr hls
    simp only at hold
    refine ⟨h.dl.mono (by simp only; omega), ?_, ?_, ?_, ?_, h.queue, h.qlen⟩
    · intro l2 hl2 _ _
      simp only [relOf_append, relOf_single_rel ch b hr hc, ← List.append_assoc]
      exact hold.snoc (by omega)
    · intro f hf hfr
      simp only [List.mem_append, List.mem_singleton] at hf
      rcases hf with hf | rfl
      · have := h.bound f hf hfr; simp only at this ⊢; omega
      · simp
    · intro l2 hl2 f hf
      rw [hlast'] at hl2; simp at hl2; subst hl2
      simp only [List.mem_append, List.mem_singleton] at hf
      rcases hf with hf | rfl
      · rw [h.homo last hl f hf, hrel]
      · rfl
    · intro f hf
      simp only [List.mem_append, List.mem_singleton] at hf
      rcases hf with hf | rfl
      · exact h.part f hf
      · exact hc
  · have hr' : b.bReliable = false := by simpa using hr
    simp only [hr', Bool.false_eq_true, if_false]
    refine ⟨h.dl, ?_, ?_, ?_, ?_, h.queue, h.qlen⟩
    · intro l2 hl2 hl2r
      rw [hlast'] at hl2; simp at hl2; subst hl2; simp [hr'] at hl2r
    · intro f hf hfr
      simp only [List.mem_append, List.mem_singleton] at hf
      rcases hf with hf | rfl
      · exact h.bound f hf hfr
      · simp [hr'] at hfr
    · intro l2 hl2 f hf
      rw [hlast'] at hl2; simp at hl2; subst hl2
      simp only [List.mem_append, List.mem_singleton] at hf
      rcases hf with hf | rfl
      · rw [h.homo last hl f hf, hrel]
      · rfl
    · intro f hf
      simp only [List.mem_append, List.mem_singleton] at hf
      rcases hf with hf | rfl
      · exact h.part f hf
      · exact hc

/-- a completed group is handed to the application and the fragment list emptied -/
theorem cinv_deliver (ch : Nat) (G Q : List Bunch) (r : Int) (relL : List Int) (h : CInv ch (G, Q, r) relL)
    (hcur : ∀ last, G.getLast? = some last → last.bReliable = true → last.chSeq = r) : CInv ch ([], Q, r) (relL ++ relOf ch G) := by
  refine ⟨?_, by intro last hl; simp at hl, by intro f hf; simp at hf, by intro last hl; simp at hl, by intro f hf; simp at hf, h.queue, h.qlen⟩
  cases hg : G.getLast? with
  | none =>
    have : G = [] := by simpa using hg
    subst this; simp [relOf]; exact h.dl
  | some last =>
    by_cases hlr : last.bReliable = true
    · exact h.live last hg hlr (hcur last hg hlr)
    · have hall : ∀ f ∈ G, f.bReliable = false := by
        intro f hf; rw [h.homo last hg f hf]; simpa using hlr
      rw [relOf_unrel ch G hall]; simp; exact h.dl

/-- a single (non-partial) bunch is handed to the application -/
theorem cinv_single (ch : Nat) (P Q : List Bunch) (r : Int) (relL : List Int) (b : Bunch) (h : CInv ch (P, Q, r) relL)
    (hc : b.chIndex = ch) (hn : b.bReliable = true → b.chSeq = r + 1) : CInv ch (P, Q, nextRel r b) (relL ++ relOf ch [b]) := by
  have hk := cinv_keep ch P Q r relL b h hn
  unfold nextRel at hk ⊢
  by_cases hr : b.bReliable = true
  · simp only [hr, if_true] at hk ⊢
    have hb := hn hr
    rw [relOf_single_rel ch b hr hc]
    refine ⟨h.dl.snoc (by simp only; omega), ?_, hk.bound, hk.homo, hk.part, hk.queue, hk.qlen⟩
    intro last hl hlr hls
    have := h.bound last (List.mem_of_getLast? hl) hlr
    simp only at hls this; omega
  · have hr' : b.bReliable = false := by simpa using hr
    simp only [hr', Bool.false_eq_true, if_false] at hk ⊢
    rw [relOf_single_unrel ch b hr']; simp; exact hk

/-! ### following one channel through a sequence of primitive steps -/

structure Track (ch : Nat) (c c' : Conn) (t : List Bunch × List Bunch × Int) (extra : List Int) : Prop where
  upd : Upd ch c c'
  chan : chanRecv c' ch = some t
  log : relLog ch c'.log = relLog ch c.log ++ extra

theorem Track.start {ch : Nat} {c : Conn} {t : List Bunch × List Bunch × Int} (h : chanRecv c ch = some t) : Track ch c c t [] :=
  ⟨Upd.refl _ _, h, by simp⟩

theorem Track.rsame {ch : Nat} {c c1 c2 : Conn} {t : List Bunch × List Bunch × Int} {ex : List Int} (h : Track ch c c1 t ex) (hs : RSame c1 c2) :
    Track ch c c2 t ex :=
  ⟨h.upd.trans (Upd.of_rsame hs), by unfold chanRecv; rw [hs.chan ch]; exact h.chan, by rw [hs.log ch]; exact h.log⟩

theorem Track.setChan {ch : Nat} {c c1 : Conn} {t : List Bunch × List Bunch × Int} {ex : List Int} (h : Track ch c c1 t ex) (x : Channel) :
    Track ch c (c1.setChan ch x) (recvPart x) ex :=
  ⟨h.upd.trans (setChan_upd c1 ch x), chanRecv_setChan _ _ _, by rw [relLog_setChan]; exact h.log⟩

theorem Track.recv {ch : Nat} {c c1 : Conn} {t : List Bunch × List Bunch × Int} {ex : List Int} (h : Track ch c c1 t ex) (g : List Bunch)
    (hg : ∀ f ∈ g, f.chIndex = ch) : Track ch c (c1.emit (.recv g)) t (ex ++ relOf ch g) :=
  ⟨h.upd.trans (emit_recv_upd c1 ch g hg), h.chan, by rw [relLog_emit_recv, h.log, List.append_assoc]⟩

theorem Track.finish {ch : Nat} {c c' : Conn} {t : List Bunch × List Bunch × Int} {ex : List Int} (hi : RecvInv c) (h : Track ch c c' t ex)
    (hinv : CInv ch t (relLog ch c.log ++ ex)) : RecvInv c' :=
  hi.update ch h.upd (fun t' ht' => by rw [h.chan] at ht'; cases ht'; rw [h.log]; exact hinv) (fun hn => by rw [h.chan] at hn; cases hn)

/-- what `merge_partial_data` does to the receive side of the channel -/
theorem mergePartial_cinv (c : Conn) (x1 : Channel) (b : Bunch) (ch : Nat) (P Q : List Bunch) (r : Int) (relL : List Int)
    (h : CInv ch (P, Q, r) relL) (hx1 : recvPart x1 = (P, Q, nextRel r b)) (hc : b.chIndex = ch) (hn : b.bReliable = true → b.chSeq = r + 1) :
    RSame c (mergePartial c x1 b).1 ∧
    (∃ P', recvPart (mergePartial c x1 b).2.1 = (P', Q, nextRel r b) ∧ CInv ch (P', Q, nextRel r b) relL ∧
      ((mergePartial c x1 b).2.2.1 = .available → P'.getLast? = some b)) := by
  have hP : x1.inPartial = P := by have := congrArg (·.1) hx1; simpa [recvPart] using this
  have hQ : x1.inRec = Q := by have := congrArg (·.2.1) hx1; simpa [recvPart] using this
  have hR : x1.inReliable = nextRel r b := by have := congrArg (·.2.2) hx1; simpa [recvPart] using this
  have keep : ∃ P', recvPart x1 = (P', Q, nextRel r b) ∧ CInv ch (P', Q, nextRel r b) relL := ⟨P, hx1, cinv_keep ch P Q r relL b h hn⟩
  unfold mergePartial mergeInitial mergeNext
  split
  · -- initial fragment
    split
    · refine ⟨RSame.refl _, [b], ?_, cinv_start ch P Q r relL b h hc hn, fun _ => by simp⟩
      simp [recvPart, hQ, hR]
    · split
      · obtain ⟨P', h1, h2⟩ := keep
        exact ⟨RSame.refl _, P', h1, h2, fun hav => by simp only at hav; split at hav <;> cases hav⟩
      · refine ⟨freeNodes_rsame _ _, [b], ?_, cinv_start ch P Q r relL b h hc hn, fun _ => by simp⟩
        simp [recvPart, hQ, hR]
  · -- follow-up fragment
    split
    · obtain ⟨P', h1, h2⟩ := keep
      exact ⟨RSame.refl _, P', h1, h2, fun hav => by cases hav⟩
    · rename_i last hl
      rw [hP] at hl
      split
      · rename_i hm
        refine ⟨RSame.refl _, P ++ [b], ?_, cinv_append ch P Q r relL b last h hl hm hc hn, fun _ => by simp⟩
        simp [recvPart, hP, hQ, hR]
      · split
        · obtain ⟨P', h1, h2⟩ := keep
          exact ⟨RSame.refl _, P', h1, h2, fun hav => by simp only at hav; split at hav <;> cases hav⟩
        · refine ⟨freeNodes_rsame _ _, [], ?_, ?_, fun hav => by cases hav⟩
          · simp [recvPart, hQ, hR]
          · have hk := cinv_keep ch P Q r relL b h hn
            exact cinv_clear ch P Q _ _ relL hk (Int.le_refl _)

/-! ### the receive path -/

theorem chanRecv_of_getChan {c : Conn} {ch : Nat} {x : Channel} (h : c.getChan ch = some x) : chanRecv c ch = some (recvPart x) := by
  unfold chanRecv; rw [h]; rfl

theorem recvPart_clear (x : Channel) (P Q : List Bunch) (r : Int) (h : recvPart x = (P, Q, r)) : recvPart { x with inPartial := [] } = ([], Q, r) := by
  simp only [recvPart, Prod.mk.injEq] at h ⊢
  exact ⟨trivial, h.2.1, h.2.2⟩

/-- `ReceivedNextBunch` on a bunch that is unreliable or carries exactly the next sequence number of its channel -/
theorem receivedNextBunch_inv (c : Conn) (b : Bunch) (h : RecvInv c)
    (hn : ∀ x, c.getChan b.chIndex = some x → b.bReliable = true → b.chSeq = x.inReliable + 1) : RecvInv (c.receivedNextBunch b).1 := by
  unfold Conn.receivedNextBunch
  split
  · exact h.of_rsame (emit_rsame _ _ rfl)
  · rename_i x0 hx0
    have hcr := chanRecv_of_getChan hx0
    have hci := h.chans b.chIndex _ hcr
    have hnx := hn x0 hx0
    dsimp only
    -- the channel with `InReliable` advanced
    have hx1 : recvPart (if b.bReliable = true then { x0 with inReliable := b.chSeq } else x0) = (x0.inPartial, x0.inRec, nextRel x0.inReliable b) := by
      unfold nextRel; split <;> rfl
    generalize (if b.bReliable = true then { x0 with inReliable := b.chSeq } else x0) = x1 at hx1 ⊢
    have t0 : Track b.chIndex c c (recvPart x0) [] := Track.start hcr
    split
    · -- partial bunch
      obtain ⟨hrs, P', hp1, hp2, hp3⟩ := mergePartial_cinv c x1 b b.chIndex x0.inPartial x0.inRec x0.inReliable _ hci hx1 rfl hnx
      generalize mergePartial c x1 b = r at hrs hp1 hp2 hp3 ⊢
      obtain ⟨c1, x2, res, skip⟩ := r
      simp only at hrs hp1 hp2 hp3 ⊢
      have t2 : Track b.chIndex c (c1.setChan b.chIndex x2) (P', x0.inRec, nextRel x0.inReliable b) [] := by
        have := (t0.rsame hrs).setChan x2; rw [hp1] at this; exact this
      have hP' : x2.inPartial = P' := by have := congrArg (·.1) hp1; simpa [recvPart] using this
      cases res with
      | succeed => exact t2.finish h (by simpa using hp2)
      | fatal => exact (t2.rsame (emit_rsame _ _ rfl)).finish h (by simpa using hp2)
      | failed => exact (t2.rsame (emit_rsame _ _ rfl)).finish h (by simpa using hp2)
      | available =>
        simp only
        have hlast := hp3 rfl
        split
        · -- over-long group: dropped
          have t4 := ((t2.rsame (freeNodes_rsame _ x2.inPartial.length)).setChan { x2 with inPartial := [] }).rsame (markClose_rsame _ crBunchOverflow)
          refine t4.finish h ?_
          have : recvPart { x2 with inPartial := [] } = ([], x0.inRec, nextRel x0.inReliable b) := recvPart_clear x2 _ _ _ hp1
          rw [this]; simp only [List.append_nil]
          exact cinv_clear _ P' _ _ _ _ hp2 (Int.le_refl _)
        · -- delivered
          rw [hP']
          have t3 := (t2.rsame (foldl_noteClose_rsame P' _)).recv P' hp2.part
          have t5 := t3.rsame (freeNodes_rsame _ P'.length)
          have hdel : CInv b.chIndex ([], x0.inRec, nextRel x0.inReliable b) (relLog b.chIndex c.log ++ ([] ++ relOf b.chIndex P')) := by
            simp only [List.nil_append]
            refine cinv_deliver _ P' _ _ _ hp2 ?_
            intro last hl hlr
            rw [hlast] at hl; cases hl
            unfold nextRel; simp [hlr]
          split
          · exact absurd t5.chan (by unfold chanRecv; rename_i hnone; rw [hnone]; simp)
          · rename_i x5 hx5
            have h5 := t5.chan
            rw [chanRecv_of_getChan hx5] at h5
            have t6 := t5.setChan { x5 with inPartial := [] }
            refine t6.finish h ?_
            have : recvPart { x5 with inPartial := [] } = ([], x0.inRec, nextRel x0.inReliable b) := by
              have h2 : recvPart x5 = (P', x0.inRec, nextRel x0.inReliable b) := by simpa using h5
              exact recvPart_clear x5 _ _ _ h2
            rw [this]; exact hdel
    · -- single bunch
      have t1 := (t0.setChan x1).rsame (noteClose_rsame _ b)
      have t3 := (t1.recv [b] (by intro f hf; simp at hf; subst hf; rfl)).rsame (emit_rsame _ (.free .node) rfl)
      refine t3.finish h ?_
      rw [hx1]; simp only [List.nil_append]
      exact cinv_single _ _ _ _ _ b hci rfl hnx

theorem setChan_recvinv (c : Conn) (ch : Nat) (x x' : Channel) (h : RecvInv c) (hx : c.getChan ch = some x)
    (hinv : CInv ch (recvPart x') (relLog ch c.log)) : RecvInv (c.setChan ch x') :=
  ((Track.start (chanRecv_of_getChan hx)).setChan x').finish h (by simpa using hinv)

theorem dispatchWaiting_inv (fuel : Nat) : ∀ (c : Conn) (ch : Nat), RecvInv c → RecvInv (Conn.dispatchWaiting fuel c ch) := by
  induction fuel with
  | zero => intro c ch h; exact h
  | succ f ih =>
    intro c ch h
    unfold Conn.dispatchWaiting
    split
    · exact h
    · rename_i x hx
      have hci := h.chans ch _ (chanRecv_of_getChan hx)
      split
      · exact h
      · rename_i b rest hq
        split
        · exact h
        · rename_i hseq
          dsimp only
          have hb := hci.queue b (by show b ∈ x.inRec; rw [hq]; exact List.mem_cons_self)
          have h1 : RecvInv (c.setChan ch { x with inRec := rest }) := by
            refine setChan_recvinv c ch x _ h hx ⟨hci.dl, hci.live, hci.bound, hci.homo, hci.part, ?_, ?_⟩
            · intro q hqm
              exact hci.queue q (by show q ∈ x.inRec; rw [hq]; exact List.mem_cons_of_mem _ hqm)
            · have := hci.qlen
              simp only [recvPart] at this ⊢
              rw [hq] at this
              simp only [List.length_cons] at this
              omega
          refine ih _ _ (receivedNextBunch_inv _ b h1 ?_)
          intro x' hx' _
          rw [hb.1, getChan_setChan_self] at hx'
          cases hx'
          simp only
          simpa using hseq

theorem enqueue_length' (b : Bunch) : ∀ (q q' : List Bunch), enqueueIncoming b q = some q' → q'.length = q.length + 1 := by
  intro q
  induction q with
  | nil => intro q' h; simp [enqueueIncoming] at h; subst h; rfl
  | cons a rest ih =>
    intro q' h
    unfold enqueueIncoming at h
    split at h
    · simp at h
    · split at h
      · simp at h; subst h; rfl
      · cases he : enqueueIncoming b rest with
        | none => simp [he] at h
        | some q'' => simp [he] at h; subst h; simp [ih q'' he]

theorem enqueue_mem' (b : Bunch) : ∀ (q q' : List Bunch), enqueueIncoming b q = some q' → ∀ y ∈ q', y = b ∨ y ∈ q := by
  intro q
  induction q with
  | nil => intro q' h y hy; simp [enqueueIncoming] at h; subst h; simp at hy; exact Or.inl hy
  | cons a rest ih =>
    intro q' h y hy
    unfold enqueueIncoming at h
    split at h
    · simp at h
    · split at h
      · simp at h; subst h
        rcases List.mem_cons.mp hy with rfl | hy
        · exact Or.inl rfl
        · exact Or.inr hy
      · cases he : enqueueIncoming b rest with
        | none => simp [he] at h
        | some q'' =>
          simp [he] at h; subst h
          rcases List.mem_cons.mp hy with rfl | hy
          · exact Or.inr List.mem_cons_self
          · rcases ih q'' he y hy with h1 | h1
            · exact Or.inl h1
            · exact Or.inr (List.mem_cons_of_mem _ h1)

theorem processBunch_inv (c : Conn) (x : Channel) (b : Bunch) (h : RecvInv c) (hx : c.getChan b.chIndex = some x) : RecvInv (c.processBunch x b).1 := by
  have hci := h.chans b.chIndex _ (chanRecv_of_getChan hx)
  unfold Conn.processBunch
  split
  · exact h.of_rsame (emit_rsame _ _ rfl)
  · rename_i hold
    split
    · rename_i hahead
      split
      · exact h.of_rsame (emit_rsame _ _ rfl)
      · split
        · rename_i hroom q hq
          refine setChan_recvinv c _ x _ h hx ⟨hci.dl, hci.live, hci.bound, hci.homo, hci.part, ?_, ?_⟩
          · intro y hy
            rcases enqueue_mem' b x.inRec q hq y hy with rfl | hy
            · simp only [Bool.and_eq_true] at hahead; exact ⟨rfl, hahead.1⟩
            · exact hci.queue y hy
          · simp only [recvPart]
            rw [enqueue_length' b x.inRec q hq]
            omega
        · exact h.of_rsame (emit_rsame _ _ rfl)
    · rename_i hnext
      refine receivedNextBunch_inv c b h ?_
      intro x' hx' hrel
      rw [hx] at hx'; cases hx'
      simp only [hrel, Bool.true_and, decide_eq_true_eq, bne_iff_ne, ne_eq, Decidable.not_not] at hold hnext
      exact hnext

theorem createChan_inv (c : Conn) (ch : Nat) (h : RecvInv c) (hn : c.getChan ch = none) : RecvInv (c.createChan ch) := by
  have habs := h.absent ch (by unfold chanRecv; rw [hn]; rfl)
  unfold Conn.createChan
  dsimp only
  -- the steps before the table insertion leave every channel and the deliveries alone
  have hpre : RSame c (if (c.emit (.alloc .chan)).chans.length < (c.emit (.alloc .chan)).openCap then c.emit (.alloc .chan)
      else if ((c.emit (.alloc .chan)).openCap == 0) = true then { (c.emit (.alloc .chan)).emit (.alloc .open_) with openCap := 32 }
      else { (c.emit (.alloc .chan)).emit (.realloc .open_) with openCap := (c.emit (.alloc .chan)).openCap * 2 }) := by
    split
    · exact emit_rsame _ _ rfl
    · split
      · exact ((emit_rsame c (.alloc .chan) rfl).trans (emit_rsame _ (.alloc .open_) rfl)).trans (rsame_of_eq _ _ rfl rfl)
      · exact ((emit_rsame c (.alloc .chan) rfl).trans (emit_rsame _ (.realloc .open_) rfl)).trans (rsame_of_eq _ _ rfl rfl)
  generalize (if (c.emit (.alloc .chan)).chans.length < (c.emit (.alloc .chan)).openCap then c.emit (.alloc .chan)
      else if ((c.emit (.alloc .chan)).openCap == 0) = true then { (c.emit (.alloc .chan)).emit (.alloc .open_) with openCap := 32 }
      else { (c.emit (.alloc .chan)).emit (.realloc .open_) with openCap := (c.emit (.alloc .chan)).openCap * 2 }) = c1 at hpre ⊢
  refine h.update ch ((Upd.of_rsame hpre).trans (setChan_upd c1 ch _)) ?_ ?_
  · intro t ht
    rw [chanRecv_setChan] at ht; cases ht
    rw [relLog_setChan, hpre.log ch, habs]
    exact ⟨Below.nil _, by intro last hl; simp [recvPart] at hl, by intro f hf; simp [recvPart] at hf, by intro last hl; simp [recvPart] at hl,
      by intro f hf; simp [recvPart] at hf, by intro q hq; simp [recvPart] at hq, by simp [recvPart, reliableBuffer, Gen.UTCP_RELIABLE_BUFFER]⟩
  · intro hnone; rw [chanRecv_setChan] at hnone; cases hnone

theorem getOrCreateChan_inv (c : Conn) (b : Bunch) (inc : Bool) (h : RecvInv c) :
    RecvInv (c.getOrCreateChan b inc).1 ∧ ∀ x, (c.getOrCreateChan b inc).2 = some x → (c.getOrCreateChan b inc).1.getChan b.chIndex = some x := by
  unfold Conn.getOrCreateChan
  split
  · rename_i x hx
    exact ⟨h, fun y hy => by simp at hy; rw [← hy]; exact hx⟩
  · rename_i hn
    split
    · exact ⟨createChan_inv c b.chIndex h hn, fun y hy => hy⟩
    · exact ⟨h, fun y hy => by simp at hy⟩

theorem absSeq_chIndex (c : Conn) (x : Channel) (b : Bunch) : (absSeq c x b).chIndex = b.chIndex := by
  unfold absSeq; split
  · rfl
  · split <;> rfl

theorem receivedRawBunch_inv (c : Conn) (bits : Bits) (h : RecvInv c) : RecvInv (c.receivedRawBunch bits).1 := by
  unfold Conn.receivedRawBunch
  dsimp only
  have h0 : RecvInv (c.emit (.alloc .node)) := h.of_rsame (emit_rsame _ _ rfl)
  split
  · exact h0.of_rsame ((markClose_rsame _ _).trans (emit_rsame _ _ rfl))
  · split
    · exact h0.of_rsame ((markClose_rsame _ _).trans (emit_rsame _ _ rfl))
    · rename_i b rest hdec hch
      obtain ⟨g1, g2⟩ := getOrCreateChan_inv (c.emit (.alloc .node)) { b with packetId := (c.emit (.alloc .node)).inPacketId } true h0
      split
      · exact g1.of_rsame (emit_rsame _ _ rfl)
      · rename_i x hx
        have hget := g2 x hx
        refine dispatchWaiting_inv _ _ _ (processBunch_inv _ x _ g1 ?_)
        rw [absSeq_chIndex]; exact hget

theorem bunchLoop_inv (fuel : Nat) : ∀ (c : Conn) (bits : Bits) (skip : Bool), RecvInv c → RecvInv (Conn.bunchLoop fuel c bits skip).1 := by
  induction fuel with
  | zero => intro c bits skip h; exact h
  | succ f ih =>
    intro c bits skip h
    unfold Conn.bunchLoop
    split
    · exact h
    · exact ih _ _ _ (receivedRawBunch_inv c bits h)

/-- **`ReceivedPacket` on any bit string keeps the order invariant** -/
theorem receivedPacket_inv (e : Env) (c : Conn) (bits : Bits) (h : RecvInv c) : RecvInv (c.receivedPacket e bits).1 := by
  unfold Conn.receivedPacket
  split
  · exact h.of_rsame (markClose_rsame _ _)
  · rename_i hd rest hdec
    dsimp only
    split
    · exact h
    · have h1 : RecvInv ({ c with inPacketId := c.inPacketId + c.notify.deltaSeq hd } : Conn) := h.of_rsame (rsame_of_eq _ _ rfl rfl)
      have h2 := h1.of_rsame (notifyUpdate_rsame e _ hd)
      have h3 := bunchLoop_inv (rest.length + 1) _ rest false h2
      generalize Conn.bunchLoop (rest.length + 1) (({ c with inPacketId := c.inPacketId + c.notify.deltaSeq hd } : Conn).notifyUpdate e hd) rest false = r at h3 ⊢
      obtain ⟨c3, rest', skip⟩ := r
      exact h3.of_rsame (rsame_of_eq _ _ rfl rfl)

/-- a connection without channels and without deliveries -/
theorem empty_recvinv (c : Conn) (hc : c.chans = []) (hl : ∀ ch, relLog ch c.log = []) : RecvInv c := by
  refine ⟨?_, fun ch _ => hl ch⟩
  intro ch t ht
  unfold chanRecv Conn.getChan at ht
  rw [hc] at ht; simp at ht

/-- the conclusion the application cares about: per channel, strictly increasing sequence numbers -/
theorem RecvInv.increasing {c : Conn} (h : RecvInv c) (ch : Nat) : (relLog ch c.log).Pairwise (· < ·) := by
  cases ht : chanRecv c ch with
  | none => rw [h.absent ch ht]; exact List.Pairwise.nil
  | some t => exact (h.chans ch t ht).dl.1

/-! ### the send API leaves the receive side alone -/

theorem flush_rsame (e : Env) (c : Conn) : RSame c (c.flush e) := RSame.of_chans (flush_chans e c) (flush_adds e c) isOut_not_recv

theorem addOutRec_rsame (c : Conn) (ch : Nat) (pid : Int) (bits : Bits) : RSame c (c.addOutRec ch pid bits) := by
  unfold Conn.addOutRec
  split
  · exact RSame.refl _
  · rename_i x hx
    exact setChan_rsame c ch x _ hx rfl

theorem sendCommit_inv (e : Env) (c : Conn) (b : Bunch) (h0 : Bits) (h : RecvInv c) : RecvInv (c.sendCommit e b h0).1 := by
  unfold Conn.sendCommit
  dsimp only
  have h1 : RecvInv ((c.getOrCreateChan b false).1.noteClose b) := (getOrCreateChan_inv c b false h).1.of_rsame (noteClose_rsame _ b)
  generalize (c.getOrCreateChan b false).1.noteClose b = c1 at h1 ⊢
  split
  · exact h1
  · rename_i x hx
    generalize (if b.bReliable = true then x.outReliable + 1 else 0 : Int) = seq
    generalize (if b.bReliable = true then (encodeBunchHeader { b with chSeq := seq }).getD h0 else h0) = hdr
    have h2 : RecvInv (if b.bReliable = true then c1.setChan b.chIndex { x with outReliable := seq } else c1) := by
      split
      · exact h1.of_rsame (setChan_rsame c1 _ x _ hx rfl)
      · exact h1
    generalize (if b.bReliable = true then c1.setChan b.chIndex { x with outReliable := seq } else c1) = c2 at h2 ⊢
    have h3 : RecvInv (c2.prepareWrite e (hdr.length + b.data.length)) :=
      h2.of_rsame (RSame.of_chans (prepareWrite_chans e c2 _) (prepareWrite_adds e c2 _) isOut_not_recv)
    have h4 : RecvInv ((c2.prepareWrite e (hdr.length + b.data.length)).writeInternal e (hdr ++ b.data)).1 :=
      h3.of_rsame (RSame.of_chans (writeInternal_chans e _ _) (writeInternal_adds e _ _) isOut_not_recv)
    split
    · exact h4.of_rsame ((emit_rsame _ (.alloc .node) rfl).trans (addOutRec_rsame _ _ _ _))
    · exact h4

theorem sendBunch_inv (e : Env) (c : Conn) (b : Bunch) (h : RecvInv c) : RecvInv (c.sendBunch e b).1 := by
  have hraw : RecvInv (c.sendRaw e b).1 := by
    unfold Conn.sendRaw
    split
    · exact h
    · exact sendCommit_inv e c b _ h
  unfold Conn.sendBunch
  generalize c.sendRaw e b = r at hraw ⊢
  obtain ⟨c', rr⟩ := r
  simp only at hraw ⊢
  split <;> exact hraw

end Utcp
