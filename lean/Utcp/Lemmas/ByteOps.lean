import Utcp.Lemmas.ByteCopySpec
import Utcp.BitIO
/-! Buffers as bit sequences: what has been written (`content`), what is left to read (`rest`). -/
namespace Utcp.BB

/-- `n` bits of a byte array from bit `lo` -/
def bitsFrom (m : Mem) : Nat → Nat → Bits
  | _, 0 => []
  | lo, n+1 => bit m lo :: bitsFrom m (lo + 1) n

@[simp] theorem bitsFrom_length (m : Mem) (lo n : Nat) : (bitsFrom m lo n).length = n := by
  induction n generalizing lo with
  | zero => rfl
  | succ n ih => simp [bitsFrom, ih]

theorem bitsFrom_append (m : Mem) (lo a b : Nat) : bitsFrom m lo (a + b) = bitsFrom m lo a ++ bitsFrom m (lo + a) b := by
  induction a generalizing lo with
  | zero => simp [bitsFrom]
  | succ a ih =>
    have : a + 1 + b = (a + b) + 1 := by omega
    rw [this]
    simp only [bitsFrom, List.cons_append]
    rw [ih (lo + 1)]
    have : lo + 1 + a = lo + (a + 1) := by omega
    rw [this]

theorem bitsFrom_congr (m m' : Mem) (lo n : Nat) (h : ∀ k, lo ≤ k → k < lo + n → bit m k = bit m' k) :
    bitsFrom m lo n = bitsFrom m' lo n := by
  induction n generalizing lo with
  | zero => rfl
  | succ n ih =>
    simp only [bitsFrom]
    rw [h lo (by omega) (by omega), ih (lo + 1) (fun k h1 h2 => h k (by omega) (by omega))]

theorem bitsFrom_shift (m m' : Mem) (lo lo' n : Nat) (h : ∀ i, i < n → bit m (lo + i) = bit m' (lo' + i)) :
    bitsFrom m lo n = bitsFrom m' lo' n := by
  induction n generalizing lo lo' with
  | zero => rfl
  | succ n ih =>
    simp only [bitsFrom]
    have h0 := h 0 (by omega)
    simp only [Nat.add_zero] at h0
    rw [h0, ih (lo + 1) (lo' + 1) (fun i hi => by
      have := h (i + 1) (by omega)
      have e1 : lo + 1 + i = lo + (i + 1) := by omega
      have e2 : lo' + 1 + i = lo' + (i + 1) := by omega
      rw [e1, e2]; exact this)]

/-- a write buffer: bytes, capacity = the array, cursor inside, nothing but zeros from the cursor on ("a zeroed buffer") -/
structure WB (b : Buf) : Prop where
  bytes : BytesOK b.mem
  size : b.size = 8 * b.mem.length
  num : b.num ≤ b.size
  zero : ∀ k, b.num ≤ k → bit b.mem k = false

/-- the bits written so far -/
def content (b : Buf) : Bits := bitsFrom b.mem 0 b.num

/-- a read buffer: `size` valid bits, the array holds at least those (it may end with the byte of the last valid bit) -/
structure RB (b : Buf) : Prop where
  bytes : BytesOK b.mem
  size : b.size ≤ 8 * b.mem.length
  num : b.num ≤ b.size

/-- the bits not yet read -/
def rest (b : Buf) : Bits := bitsFrom b.mem b.num (b.size - b.num)

theorem bit_oob (m : Mem) (k : Nat) (h : 8 * m.length ≤ k) : bit m k = false := by
  unfold bit
  have : m.getD (k / 8) 0 = 0 := by
    have : m[k / 8]? = none := List.getElem?_eq_none (by omega)
    simp [List.getD, this]
  rw [this]; simp

/-! ### one bit -/

theorem orBit_spec (m : Mem) (hm : BytesOK m) (pos : Nat) (h : pos < 8 * m.length) :
    ∃ m', orBit m pos = some m' ∧ m'.length = m.length ∧ BytesOK m' ∧ ∀ k, bit m' k = if k = pos then true else bit m k := by
  unfold orBit
  rw [rd_of_lt _ _ (by omega)]
  simp only [Option.bind_some]
  rw [wr_of_lt _ _ _ (by omega)]
  refine ⟨_, rfl, by simp, bytesOK_set m hm _ _, ?_⟩
  intro k
  rw [bit_set _ _ _ _ (by omega)]
  by_cases h1 : k / 8 = pos / 8
  · rw [if_pos h1, testBit_mod256, Nat.testBit_or, Nat.testBit_shiftLeft]
    have a3 : k % 8 < 8 := by omega
    by_cases h2 : k = pos
    · subst h2; simp [a3]
    · rw [if_neg h2]
      have : bit m k = (m.getD (pos / 8) 0).testBit (k % 8) := by unfold bit; rw [h1]
      rw [this]
      by_cases h3 : k % 8 ≥ pos % 8
      · have : k % 8 - pos % 8 ≠ 0 := by omega
        have e : (1 : Nat).testBit (k % 8 - pos % 8) = false := by
          cases hb : (1 : Nat).testBit (k % 8 - pos % 8) with
          | false => rfl
          | true => exact absurd (Nat.testBit_one_eq_true_iff_self_eq_zero.mp hb) this
        simp [a3, e]
      · simp [a3, h3]
  · have : k ≠ pos := by intro h; subst h; exact h1 rfl
    rw [if_neg h1, if_neg this]

end Utcp.BB

namespace Utcp.BB

theorem and_shl_one (x j : Nat) : x &&& (1 <<< j) = if x.testBit j then 2 ^ j else 0 := by
  apply Nat.eq_of_testBit_eq
  intro i
  rw [Nat.testBit_and, Nat.one_shiftLeft, Nat.testBit_two_pow]
  by_cases h : j = i
  · subst h
    cases hx : x.testBit j <;> simp [Nat.testBit_two_pow]
  · cases hx : x.testBit j <;> simp [h, Nat.testBit_two_pow]

theorem and_shl_one_ne (x j : Nat) : (x &&& (1 <<< j) ≠ 0) ↔ x.testBit j = true := by
  rw [and_shl_one]
  cases hx : x.testBit j
  · simp
  · simp

theorem testAt_spec (m : Mem) (pos : Nat) (h : pos < 8 * m.length) : testAt m pos = some (bit m pos) := by
  unfold testAt
  rw [rd_of_lt _ _ (by omega)]
  simp only [Option.bind_some, bit]
  congr 1
  cases hx : (m.getD (pos / 8) 0).testBit (pos % 8)
  · have : ¬ (m.getD (pos / 8) 0 &&& (1 <<< (pos % 8)) ≠ 0) := fun h => by
      have := (and_shl_one_ne (m.getD (pos / 8) 0) (pos % 8)).mp h
      rw [hx] at this; exact Bool.noConfusion this
    simpa using this
  · have := (and_shl_one_ne (m.getD (pos / 8) 0) (pos % 8)).mpr hx
    simpa using this

theorem bitsFrom_eq (m : Mem) (w : Bits) : ∀ lo, (∀ i, i < w.length → bit m (lo + i) = w.getD i false) → bitsFrom m lo w.length = w := by
  induction w with
  | nil => intro lo _; rfl
  | cons x w ih =>
    intro lo h
    simp only [List.length_cons, bitsFrom]
    have h0 := h 0 (by simp)
    simp at h0
    rw [h0, ih (lo + 1) (fun i hi => by
      have := h (i + 1) (by simp; omega)
      have e : lo + 1 + i = lo + (i + 1) := by omega
      rw [e, this]; simp)]

theorem bitsFrom_getD (m : Mem) (lo n i : Nat) (hi : i < n) : (bitsFrom m lo n).getD i false = bit m (lo + i) := by
  induction n generalizing lo i with
  | zero => omega
  | succ n ih =>
    cases i with
    | zero => simp [bitsFrom]
    | succ i =>
      simp only [bitsFrom, List.getD_cons_succ]
      rw [ih (lo + 1) i (by omega)]
      congr 1; omega

/-- a writer that replaces exactly the bits `[num, num + |w|)` by `w` extends the content by `w` and keeps the buffer a zeroed write buffer -/
theorem wb_extend (b : Buf) (hb : WB b) (m' : Mem) (w : Bits) (hfit : b.num + w.length ≤ b.size) (hlen : m'.length = b.mem.length) (hok : BytesOK m')
    (hbits : ∀ k, bit m' k = if b.num ≤ k ∧ k < b.num + w.length then w.getD (k - b.num) false else bit b.mem k) :
    WB { b with mem := m', num := b.num + w.length } ∧ content { b with mem := m', num := b.num + w.length } = content b ++ w := by
  constructor
  · refine ⟨hok, by simp [hlen, hb.size], hfit, ?_⟩
    intro k hk
    simp only at hk ⊢
    rw [hbits k]
    have : ¬ (b.num ≤ k ∧ k < b.num + w.length) := by omega
    rw [if_neg this]
    exact hb.zero k (by omega)
  · unfold content
    simp only
    rw [bitsFrom_append]
    congr 1
    · apply bitsFrom_congr
      intro k _ h2
      rw [hbits k]
      have : ¬ (b.num ≤ k ∧ k < b.num + w.length) := by omega
      rw [if_neg this]
    · apply bitsFrom_eq
      intro i hi
      rw [hbits (0 + b.num + i)]
      have : b.num ≤ 0 + b.num + i ∧ 0 + b.num + i < b.num + w.length := by omega
      rw [if_pos this]
      congr 1; omega

end Utcp.BB
