import Utcp.Lemmas.ByteMem
/-! The main path of the bit-run copier: the accumulator invariant and the byte loop. -/
namespace Utcp.BB

/-- the accumulator of the main copier after the source byte `S0 + M` has been shifted in: bit `j` is source bit
`8 * (S0 + M) + j - sh`, for the `sh + 8` low positions that have a source bit (of the bytes read so far) behind them -/
def AccOK (src : Mem) (S0 sh M acc : Nat) : Prop :=
  ∀ j, acc.testBit j = (decide (sh ≤ 8 * M + j ∧ j < sh + 8) && bit src (8 * S0 + (8 * M + j - sh)))

theorem accOK_init (src : Mem) (hs : BytesOK src) (S0 sh : Nat) :
    AccOK src S0 sh 0 (src.getD S0 0 <<< sh) := by
  intro j
  rw [Nat.testBit_shiftLeft]
  by_cases h1 : sh ≤ j
  · by_cases h2 : j < sh + 8
    · have : 8 * S0 + (8 * 0 + j - sh) = 8 * S0 + (j - sh) := by omega
      rw [this, bit_at src S0 (j - sh) (by omega)]
      simp [h1, h2]
    · rw [testBit_byte_hi _ _ (getD_lt_256 src hs S0) (by omega)]
      simp [h2]
  · simp [h1]

theorem accOK_lt (src : Mem) (S0 sh M acc : Nat) (h : AccOK src S0 sh M acc) : acc < 2 ^ (sh + 8) := by
  apply Nat.lt_pow_two_of_testBit
  intro i hi
  rw [h i]
  have : ¬ (i < sh + 8) := by omega
  simp [this]

theorem accOK_step (src : Mem) (hs : BytesOK src) (S0 sh M acc : Nat) (hsh : sh < 8) (h : AccOK src S0 sh M acc) :
    AccOK src S0 sh (M + 1) (((src.getD (S0 + M + 1) 0 <<< (sh + 8)) + acc) >>> 8) := by
  intro j
  rw [Nat.shiftLeft_add_eq_or_of_lt (accOK_lt _ _ _ _ _ h), Nat.testBit_shiftRight, Nat.testBit_or, Nat.testBit_shiftLeft, h (8 + j)]
  by_cases h1 : sh ≤ j
  · -- the bit comes from the new byte
    have e1 : 8 + j - (sh + 8) = j - sh := by omega
    have e2 : ¬ (8 + j < sh + 8) := by omega
    rw [e1]
    by_cases h2 : j < sh + 8
    · have e3 : 8 * S0 + (8 * (M + 1) + j - sh) = 8 * (S0 + M + 1) + (j - sh) := by omega
      rw [e3, bit_at src (S0 + M + 1) (j - sh) (by omega)]
      have : sh + 8 ≤ 8 + j := by omega
      simp [h1, h2, e2, this]; omega
    · rw [testBit_byte_hi _ _ (getD_lt_256 src hs _) (by omega)]
      simp [h2, e2]
  · -- the bit was already in the accumulator, eight positions higher
    have e1 : ¬ (sh + 8 ≤ 8 + j) := by omega
    have e3 : 8 * S0 + (8 * M + (8 + j) - sh) = 8 * S0 + (8 * (M + 1) + j - sh) := by omega
    rw [e3]
    have a1 : sh ≤ 8 * M + (8 + j) := by omega
    have a2 : 8 + j < sh + 8 := by omega
    have a3 : sh ≤ 8 * (M + 1) + j := by omega
    have a4 : j < sh + 8 := by omega
    simp [e1, a1, a2, a3, a4]

end Utcp.BB

namespace Utcp.BB

theorem cpyLoop_spec (src : Mem) (hs : BytesOK src) (S0 sh : Nat) (hsh : sh < 8) :
    ∀ (L : Nat) (cur : Mem) (M di acc : Nat),
      AccOK src S0 sh M acc → BytesOK cur →
      S0 + M + L ≤ src.length → di + L ≤ cur.length + 1 →
      ∃ cur' acc', cpyLoop L cur src (S0 + M + 1) di acc (sh + 8) = some (cur', S0 + M + 1 + (L - 1), di + (L - 1), acc') ∧
        AccOK src S0 sh (M + (L - 1)) acc' ∧ BytesOK cur' ∧ cur'.length = cur.length ∧
        ∀ k, bit cur' k = if 8 * di ≤ k ∧ k < 8 * (di + (L - 1)) then bit src (8 * S0 + (8 * (M + 1) + (k - 8 * di) - sh)) else bit cur k := by
  intro L
  induction L with
  | zero =>
    intro cur M di acc ha hc _ _
    refine ⟨cur, acc, by simp [cpyLoop], by simpa using ha, hc, rfl, ?_⟩
    intro k
    have : ¬ (8 * di ≤ k ∧ k < 8 * (di + (0 - 1))) := by omega
    rw [if_neg this]
  | succ L ih =>
    intro cur M di acc ha hc hsl hdl
    cases L with
    | zero =>
      refine ⟨cur, acc, by simp [cpyLoop], by simpa using ha, hc, rfl, ?_⟩
      intro k
      have : ¬ (8 * di ≤ k ∧ k < 8 * (di + (0 + 1 - 1))) := by omega
      rw [if_neg this]
    | succ n =>
      have hrd : rd src (S0 + M + 1) = some (src.getD (S0 + M + 1) 0) := rd_of_lt _ _ (by omega)
      have ha' := accOK_step src hs S0 sh M acc hsh ha
      generalize hacc : ((src.getD (S0 + M + 1) 0 <<< (sh + 8)) + acc) >>> 8 = acc1 at ha'
      have hwr : wr cur di acc1 = some (cur.set di (acc1 % 256)) := wr_of_lt _ _ _ (by omega)
      have hc1 : BytesOK (cur.set di (acc1 % 256)) := bytesOK_set cur hc di acc1
      obtain ⟨cur', acc', hrun, hacc', hok', hlen', hbits'⟩ := ih (cur.set di (acc1 % 256)) (M + 1) (di + 1) acc1 ha' hc1 (by omega) (by simp; omega)
      refine ⟨cur', acc', ?_, ?_, hok', ?_, ?_⟩
      · rw [cpyLoop]
        simp only [hrd, Option.bind_some, hacc, hwr]
        have e1 : S0 + (M + 1) + 1 = S0 + M + 1 + 1 := by omega
        rw [e1] at hrun
        rw [hrun]
        have e2 : S0 + M + 1 + 1 + (n + 1 - 1) = S0 + M + 1 + (n + 1 + 1 - 1) := by omega
        have e3 : di + 1 + (n + 1 - 1) = di + (n + 1 + 1 - 1) := by omega
        rw [e2, e3]
      · have e : M + 1 + (n + 1 - 1) = M + (n + 1 + 1 - 1) := by omega
        rw [← e]; exact hacc'
      · rw [hlen']; simp
      · intro k
        rw [hbits' k, bit_set _ _ _ _ (by omega)]
        by_cases h1 : k / 8 = di
        · have a1 : ¬ (8 * (di + 1) ≤ k ∧ k < 8 * (di + 1 + (n + 1 - 1))) := by omega
          have a2 : 8 * di ≤ k ∧ k < 8 * (di + (n + 1 + 1 - 1)) := by omega
          rw [if_neg a1, if_pos h1, if_pos a2, testBit_mod256, ha' (k % 8)]
          have a3 : k % 8 < 8 := by omega
          have a4 : sh ≤ 8 * (M + 1) + k % 8 ∧ k % 8 < sh + 8 := by omega
          have a5 : k - 8 * di = k % 8 := by omega
          simp [a3, a4, a5]
        · rw [if_neg h1]
          by_cases h2 : 8 * (di + 1) ≤ k ∧ k < 8 * (di + 1 + (n + 1 - 1))
          · have a2 : 8 * di ≤ k ∧ k < 8 * (di + (n + 1 + 1 - 1)) := by omega
            rw [if_pos h2, if_pos a2]
            have : 8 * (M + 1 + 1) + (k - 8 * (di + 1)) - sh = 8 * (M + 1) + (k - 8 * di) - sh := by omega
            rw [this]
          · have a2 : ¬ (8 * di ≤ k ∧ k < 8 * (di + (n + 1 + 1 - 1))) := by omega
            rw [if_neg h2, if_neg a2]

end Utcp.BB
