import Utcp.Bunch
import Utcp.Lemmas.BitIO
/-! round-trip lemmas for the bunch codec -/
namespace Utcp

theorem maxChSequence_eq : maxChSequence = 2 ^ 10 := by decide
theorem maxPacketBits_eq : maxPacketBits = 2 ^ 13 := by decide
theorem closeReasonMax_eq : closeReasonMax = 15 := by decide

theorem rd_seq (v : Nat) (rest : Bits) : readInt maxChSequence (writeIntWrapped v maxChSequence ++ rest) = .ok (v % 1024) rest := by
  rw [maxChSequence_eq]; exact readInt_wrapped_pow2 10 v rest (by decide)

theorem rd_len (n : Nat) (h : n < 8192) (rest : Bits) : readInt maxPacketBits (writeIntWrapped n maxPacketBits ++ rest) = .ok n rest := by
  rw [maxPacketBits_eq]
  have := readInt_wrapped_pow2 13 n rest (by decide)
  rw [this, Nat.mod_eq_of_lt (by simpa using h)]

theorem rd_reason (r : Nat) (h : r < 15) (rest : Bits) : readInt closeReasonMax (writeInt r closeReasonMax ++ rest) = .ok r rest := by
  rw [closeReasonMax_eq]; exact readInt_writeInt r 15 rest h (by decide)

theorem rd_packed (v : Nat) (h : v < 2 ^ 32) (rest : Bits) : readIntPacked (writeIntPacked v ++ rest) = .ok v rest := by
  rw [readIntPacked_write, Nat.mod_eq_of_lt h]

/-- in-range fields: exactly what the serializer can represent -/
structure WFBunch (b : Bunch) : Prop where
  reason : if b.bClose then b.closeReason < 15 else b.closeReason = 0
  ch : b.chIndex < 65536
  pinit : b.bPartial = false → b.bPartialInitial = false
  pfinal : b.bPartial = false → b.bPartialFinal = false
  nameLt : b.nameIndex < 2 ^ 32
  name0 : b.bReliable = false → b.bOpen = false → b.nameIndex = 0
  len : b.data.length < 8192
  seq0 : b.bReliable = false → b.chSeq = 0

/-- what the receiver sees of a bunch: the channel sequence modulo 1024, no packet id yet -/
def wireView (b : Bunch) : Bunch := { b with chSeq := b.chSeq % 1024, packetId := 0 }

theorem chseq_cast (x : Int) : (((x % 4294967296).toNat % 1024 : Nat) : Int) = x % 1024 := by omega

end Utcp

namespace Utcp

theorem readCtl_write (o c : Bool) (r : Nat) (hr : if c then r < 15 else r = 0) (rest : Bits) :
    readCtl (writeCtl o c r ++ rest) = .ok (o, c, r) rest := by
  cases o <;> cases c <;> simp_all [readCtl, writeCtl, Rd.bind_apply, rd_reason]

theorem readSeq_write (rel : Bool) (chSeq : Int) (h0 : rel = false → chSeq = 0) (rest : Bits) :
    readSeq rel (writeSeq rel chSeq ++ rest) = .ok (chSeq % 1024).toNat rest := by
  cases rel
  · simp [readSeq, writeSeq, h0 rfl]
  · simp only [readSeq, writeSeq, if_true, rd_seq]
    congr 1; omega

theorem readPartialFlags_write (p a b : Bool) (ha : p = false → a = false) (hb : p = false → b = false) (rest : Bits) :
    readPartialFlags p (writePartialFlags p a b ++ rest) = .ok (a, b) rest := by
  cases p
  · simp [readPartialFlags, writePartialFlags, ha rfl, hb rfl]
  · simp [readPartialFlags, writePartialFlags, Rd.bind_apply]

theorem readName_write (has : Bool) (name : Nat) (hlt : name < 2 ^ 32) (h0 : has = false → name = 0) (rest : Bits) :
    readName has (writeName has name ++ rest) = .ok name rest := by
  cases has
  · simp [readName, writeName, h0 rfl]
  · simp [readName, writeName, Rd.bind_apply, rd_packed _ hlt]

end Utcp
