import Utcp.Lemmas.Log
/-! What the *sending* machinery (flush, header placeholder, retransmission, release on ack) never touches. -/
namespace Utcp
open Gen

structure Keeps (c c' : Conn) : Prop where
  lastNotified : c'.lastNotified = c.lastNotified
  inPacketId : c'.inPacketId = c.inPacketId
  outAckPacketId : c'.outAckPacketId = c.outAckPacketId
  outAckSeq : c'.notify.outAckSeq = c.notify.outAckSeq
  inSeq : c'.notify.inSeq = c.notify.inSeq
  inAckSeq : c'.notify.inAckSeq = c.notify.inAckSeq
  inAckSeqAck : c'.notify.inAckSeqAck = c.notify.inAckSeqAck
  hist : c'.notify.hist = c.notify.hist
  bClose : c'.bClose = c.bClose
  closeReason : c'.closeReason = c.closeReason
  connected : c'.connected = c.connected
  initIn : c'.initInReliable = c.initInReliable
  initOut : c'.initOutReliable = c.initOutReliable
  lastRecvMs : c'.lastRecvMs = c.lastRecvMs
  session : c'.lastSessionId = c.lastSessionId ∧ c'.lastClientId = c.lastClientId
  outPacketId_le : c.outPacketId ≤ c'.outPacketId

theorem Keeps.refl (c : Conn) : Keeps c c :=
  ⟨rfl, rfl, rfl, rfl, rfl, rfl, rfl, rfl, rfl, rfl, rfl, rfl, rfl, rfl, ⟨rfl, rfl⟩, Int.le_refl _⟩

theorem Keeps.trans {a b c : Conn} (h1 : Keeps a b) (h2 : Keeps b c) : Keeps a c :=
  ⟨h2.1.trans h1.1, h2.2.trans h1.2, h2.3.trans h1.3, h2.4.trans h1.4, h2.5.trans h1.5, h2.6.trans h1.6, h2.7.trans h1.7, h2.8.trans h1.8,
   h2.9.trans h1.9, h2.10.trans h1.10, h2.11.trans h1.11, h2.12.trans h1.12, h2.13.trans h1.13, h2.14.trans h1.14,
   ⟨h2.15.1.trans h1.15.1, h2.15.2.trans h1.15.2⟩, Int.le_trans h1.16 h2.16⟩

theorem setChan_keeps (c : Conn) (ch : Nat) (x : Channel) : Keeps c (c.setChan ch x) :=
  ⟨rfl, rfl, rfl, rfl, rfl, rfl, rfl, rfl, rfl, rfl, rfl, rfl, rfl, rfl, ⟨rfl, rfl⟩, Int.le_refl _⟩
theorem emit_keeps (c : Conn) (ev : Event) : Keeps c (c.emit ev) :=
  ⟨rfl, rfl, rfl, rfl, rfl, rfl, rfl, rfl, rfl, rfl, rfl, rfl, rfl, rfl, ⟨rfl, rfl⟩, Int.le_refl _⟩
theorem startPacket_keeps (c : Conn) : Keeps c c.startPacket :=
  ⟨rfl, rfl, rfl, rfl, rfl, rfl, rfl, rfl, rfl, rfl, rfl, rfl, rfl, rfl, ⟨rfl, rfl⟩, Int.le_refl _⟩

theorem finalHeader_keeps (c : Conn) : c.finalHeader.1.outAckSeq = c.notify.outAckSeq ∧ c.finalHeader.1.inSeq = c.notify.inSeq ∧
    c.finalHeader.1.inAckSeq = c.notify.inAckSeq ∧ c.finalHeader.1.inAckSeqAck = c.notify.inAckSeqAck ∧ c.finalHeader.1.hist = c.notify.hist := by
  unfold Conn.finalHeader Notify.fillRefresh
  split
  · rename_i n h heq
    split at heq
    · simp at heq
    · simp at heq; obtain ⟨rfl, _⟩ := heq; exact ⟨rfl, rfl, rfl, rfl, rfl⟩
  · exact ⟨rfl, rfl, rfl, rfl, rfl⟩

theorem flushNow_keeps (e : Env) (c : Conn) : Keeps c (c.flushNow e) := by
  obtain ⟨h1, h2, h3, h4, h5⟩ := finalHeader_keeps c
  exact ⟨rfl, rfl, rfl, h1, h2, h3, h4, h5, rfl, rfl, rfl, rfl, rfl, rfl, ⟨rfl, rfl⟩, by simp; omega⟩

theorem flush_keeps (e : Env) (c : Conn) : Keeps c (c.flush e) := by
  unfold Conn.flush
  split
  · exact Keeps.refl _
  · split
    · exact flushNow_keeps e c
    · exact (startPacket_keeps c).trans (flushNow_keeps e _)

theorem prepareWrite_keeps (e : Env) (c : Conn) (n : Nat) : Keeps c (c.prepareWrite e n) := by
  unfold Conn.prepareWrite
  dsimp only
  split
  · split
    · exact (flush_keeps e c).trans (startPacket_keeps _)
    · exact flush_keeps e c
  · split
    · exact startPacket_keeps _
    · exact Keeps.refl _

theorem writeInternal_keeps (e : Env) (c : Conn) (bits : Bits) : Keeps c (c.writeInternal e bits).1 := by
  unfold Conn.writeInternal
  dsimp only
  have h0 : Keeps c { c with sendBody := c.sendBody ++ bits } :=
    ⟨rfl, rfl, rfl, rfl, rfl, rfl, rfl, rfl, rfl, rfl, rfl, rfl, rfl, rfl, ⟨rfl, rfl⟩, Int.le_refl _⟩
  split
  · exact h0.trans (flush_keeps e _)
  · exact h0

theorem writeBits_keeps (e : Env) (c : Conn) (bits : Bits) : Keeps c (c.writeBits e bits).1 := by
  unfold Conn.writeBits
  exact (prepareWrite_keeps e c _).trans (writeInternal_keeps e _ bits)

theorem resendNodes_keeps (e : Env) (ch : Nat) (nodes : List OutNode) : ∀ c : Conn, Keeps c (c.resendNodes e ch nodes) := by
  induction nodes with
  | nil => intro c; exact Keeps.refl _
  | cons n rest ih =>
    intro c
    unfold Conn.resendNodes
    dsimp only
    refine (writeBits_keeps e c n.bits).trans ?_
    refine Keeps.trans ?_ (ih _)
    split
    · exact Keeps.refl _
    · exact setChan_keeps _ _ _

theorem onNakChans_keeps (e : Env) (pid : Int) (chs : List Nat) : ∀ c : Conn, Keeps c (c.onNakChans e pid chs) := by
  induction chs with
  | nil => intro c; exact Keeps.refl _
  | cons ch rest ih =>
    intro c
    unfold Conn.onNakChans
    split
    · exact ih c
    · dsimp only
      exact ((setChan_keeps c ch _).trans (resendNodes_keeps e ch _ _)).trans (ih _)

theorem foldl_emit_keeps {α} (ev : Event) (l : List α) : ∀ c : Conn, Keeps c (l.foldl (fun c _ => c.emit ev) c) := by
  induction l with
  | nil => intro c; exact Keeps.refl _
  | cons _ rest ih => intro c; exact (emit_keeps c ev).trans (ih _)

theorem onAckChans_keeps (pid : Int) (chs : List Nat) : ∀ c : Conn, Keeps c (c.onAckChans pid chs) := by
  induction chs with
  | nil => intro c; exact Keeps.refl _
  | cons ch rest ih =>
    intro c
    unfold Conn.onAckChans
    split
    · exact ih c
    · dsimp only
      exact ((setChan_keeps c ch _).trans (foldl_emit_keeps _ _ _)).trans (ih _)

end Utcp
