import Utcp.Lemmas.Conn
import Utcp.Lemmas.Frame
import Utcp.Handshake
/-!
# Size and framing of what `utcp_send_flush` and the handshake senders hand to the outgoing callback (one call, any state)

Used by `Lemmas/SendInv.lean` (the invariant over histories) and restated as property theorems in `Props/C18.lean`.
-/
namespace Utcp.Size
open Utcp Utcp.Gen

theorem limits : Gen.UTCP_MAX_PACKET = 1024 ∧ Gen.SIZEOF_SEND_BUFFER = 1024 + 32 + 1 ∧ Gen.UDP_MTU_SIZE = 1452
    ∧ Gen.MAX_PACKET_HEADER_BITS = 308 ∧ Gen.MAX_PACKET_TRAILER_BITS = 1 := by decide

/-- a well-framed datagram: non-empty, last byte non-zero, and `bitbuf_read_init` recovers exactly `payload` -/
def Framed (bytes : List UInt8) (payload : Bits) : Prop :=
  bytes ≠ [] ∧ (∃ init last, bytes = init ++ [last] ∧ last ≠ 0) ∧ readInit bytes = some payload ∧ bytes.length = (payload.length + 1 + 7) / 8

theorem framed_of_terminated (payload : Bits) : Framed (bitsToBytes (payload ++ [true])) payload := by
  obtain ⟨init, last, hb, hl⟩ := bitsToBytes_last_ne_zero payload
  refine ⟨by rw [hb]; simp, ⟨init, last, hb, hl⟩, readInit_bitsToBytes payload, ?_⟩
  rw [bitsToBytes_length]; simp

/-- the bits a flush puts on the wire end in the connection-level terminator and the packet-handler terminator -/
theorem packetBits_terminated (e : Env) (c : Conn) :
    c.packetBits e = (outgoingHeader e c.lastSessionId c.lastClientId false ++ c.finalHeader.2 ++ c.sendBody ++ [true]) ++ [true] := by
  unfold Conn.packetBits; simp

/-- **every datagram a flush emits is framed**: non-empty, ends in a non-zero byte, and the receiver's
`bitbuf_read_init` recovers header ++ body ++ connection-level terminator -/
theorem flush_framed (e : Env) (c : Conn) (h : c.flushDue e = true) :
    ∃ bytes payload, (c.flush e).log = .out bytes :: c.log ∧ Framed bytes payload ∧ payload.getLast? = some true := by
  unfold Conn.flush
  simp only [h, Bool.not_true, Bool.false_eq_true, if_false, flushNow_log]
  generalize hc' : (if c.sendActive = true then c else c.startPacket) = c'
  have hlog : c'.log = c.log := by rw [← hc']; split <;> simp
  refine ⟨bitsToBytes (c'.packetBits e), outgoingHeader e c'.lastSessionId c'.lastClientId false ++ c'.finalHeader.2 ++ c'.sendBody ++ [true], ?_, ?_, ?_⟩
  · rw [hlog]
  · rw [packetBits_terminated]; exact framed_of_terminated _
  · simp

/-- the notification header is a 32-bit packed word, the history words, and the (cleared) packet-info bit -/
theorem encodeNotifHeader_length (h : NotifHeader) : (encodeNotifHeader h).length = 32 + h.hist.length + 1 := by
  unfold encodeNotifHeader writeU32; simp; omega

theorem headerWith_hist_length (n : Notify) (w : Nat) (hh : n.hist.length = 256) (hw : w ≤ 8) : (n.headerWith w).hist.length = 32 * w := by
  unfold Notify.headerWith
  have : histWordsMax = 8 := by decide
  simp only [this, List.length_take, hh]
  omega

theorem curWords_range (n : Notify) : 1 ≤ n.curWords ∧ n.curWords ≤ 8 := by
  obtain ⟨_, _, c_inAck, c_inAckAck, _, _, _, _, _⟩ := n
  unfold Notify.curWords
  have : histWordsMax = 8 := by decide
  rw [this]
  dsimp only
  generalize ((if seq_num_greater_equal c_inAck c_inAckAck = true then (seq_num_diff c_inAck c_inAckAck).toNat else histLen) + 31) / 32 = w at *
  split <;> (try split) <;> omega

/-- a refreshed header occupies exactly the space of the placeholder written when the packet was started (the
refresh is refused when more history words would be needed), so the body never moves -/
theorem finalHeader_same_length (c : Conn) (hh : c.notify.hist.length = 256) (hw : c.notify.writtenWords ≤ 8)
    (hn : c.sendNotif.length = 33 + 32 * c.notify.writtenWords) : c.finalHeader.2.length = c.sendNotif.length := by
  unfold Conn.finalHeader Notify.fillRefresh
  split
  · rename_i n h heq
    split at heq
    · simp at heq
    · simp at heq
      obtain ⟨_, rfl⟩ := heq
      rw [encodeNotifHeader_length, headerWith_hist_length _ _ hh hw, hn]; omega
  · rfl

theorem startPacket_header_length (c : Conn) (hh : c.notify.hist.length = 256) :
    c.startPacket.sendNotif.length = 33 + 32 * c.startPacket.notify.writtenWords ∧ c.startPacket.notify.writtenWords ≤ 8
    ∧ 1 ≤ c.startPacket.notify.writtenWords ∧ c.startPacket.notify.hist.length = 256 := by
  unfold Conn.startPacket Notify.fillFresh
  have hr := curWords_range c.notify
  simp only
  rw [encodeNotifHeader_length, headerWith_hist_length _ _ hh hr.2]
  exact ⟨by omega, hr.2, hr.1, hh⟩

/-- **size**: if the send buffer holds at most 8191 bits (the invariant `GetFreeSendBufferBits ≥ 0` enforces), the
emitted datagram has at most 1025 bytes: the maximum packet size plus the one byte of terminator framing -/
theorem flush_size (e : Env) (c : Conn) (ha : c.sendActive = true) (hh : c.notify.hist.length = 256) (hw : c.notify.writtenWords ≤ 8)
    (hn : c.sendNotif.length = 33 + 32 * c.notify.writtenWords) (hsz : c.sendBitsNum e ≤ 8191) :
    (bitsToBytes (c.packetBits e)).length ≤ 1025 := by
  rw [bitsToBytes_length]
  unfold Conn.packetBits
  have hf := finalHeader_same_length c hh hw hn
  unfold Conn.sendBitsNum at hsz
  simp only [ha, if_true] at hsz
  have ho : (outgoingHeader e c.lastSessionId c.lastClientId false).length = e.outHdrLen := by
    unfold outgoingHeader Env.outHdrLen; simp
  simp only [List.length_append, ho, hf, List.length_cons, List.length_nil]
  omega

/-- a keep-alive (empty) packet is at most 42 + 1 bytes -/
theorem keepalive_size (e : Env) (c : Conn) (hm : e.magicBits ≤ 32) (hh : c.notify.hist.length = 256) :
    (bitsToBytes (c.startPacket.packetBits e)).length ≤ 42 := by
  rw [bitsToBytes_length]
  unfold Conn.packetBits
  obtain ⟨h1, h2, h3, h4⟩ := startPacket_header_length c hh
  have hf := finalHeader_same_length c.startPacket h4 h2 h1
  have ho : (outgoingHeader e c.startPacket.lastSessionId c.startPacket.lastClientId false).length = e.outHdrLen := by
    unfold outgoingHeader Env.outHdrLen; simp
  simp only [List.length_append, ho, hf, h1, List.length_cons, List.length_nil, startPacket_sendBody]
  unfold Env.outHdrLen
  omega

/-! ## handshake datagrams -/

theorem ite_sub_le (c : Prop) [Decidable c] (x : Nat) (h : x ≤ 16) : (if c then x - 1 else x) ≤ 16 := by split <;> omega

/-- `CapHandshakePacket` appends a whole number of zero bytes (9 … 16, or none for the original protocol
version) and the terminator bit -/
theorem capHandshake_shape (e : Env) (rng : Rng) (ver : Nat) (bits : Bits) :
    ∃ k, k ≤ 16 ∧ (capHandshake e rng ver bits).2 = bits ++ List.replicate (8 * k) false ++ [true] := by
  unfold capHandshake
  split
  · simp only
    refine ⟨_, ?_, rfl⟩
    exact ite_sub_le _ _ (by omega)
  · exact ⟨0, by omega, by simp⟩

theorem padding_range (e : Env) (rng : Rng) (bits : Bits) :
    ∃ k, 9 ≤ k ∧ k ≤ 16 ∧ (capHandshake e rng 3 bits).2 = bits ++ List.replicate (8 * k) false ++ [true] := by
  unfold capHandshake
  simp only [show (3 : Nat) ≥ 1 from by decide, if_true, show ¬ ((3 : Nat) < 3) from by decide, false_and, Bool.false_eq_true, if_false]
  refine ⟨16 - (rng.nextLib.2 % 8), by omega, by omega, ?_⟩
  simp

/-- every handshake datagram is framed -/
theorem handshake_framed (e : Env) (rng : Rng) (ver : Nat) (bits : Bits) :
    ∃ payload, Framed (bitsBytes (capHandshake e rng ver bits).2) payload := by
  obtain ⟨k, _, hk⟩ := capHandshake_shape e rng ver bits
  unfold bitsBytes
  rw [hk]
  exact ⟨_, framed_of_terminated _⟩

/-! non-vacuity: an idle connected endpoint past its keep-alive interval satisfies the premises -/
example : ({ connected := true } : Conn).flushDue { elapsedUs := 0 } = true := by decide

end Utcp.Size
