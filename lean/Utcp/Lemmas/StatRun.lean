import Utcp.Lemmas.RegRun
import Utcp.Lemmas.Retain
/-! helper lemmas for `Props/C02_Order.lean`: the operations other than `ReceivedPacket` report no delivery status and leave the notification counter alone -/
namespace Utcp.Props.C02Hist
open Utcp Utcp.Gen Utcp.Props

/-- `utcp_send_bunch` appends only emitted datagrams and allocator events to the log, whatever the bunch -/
theorem sendBunch_adds_gen {P : Event → Prop} (hout : ∀ ev, isOut ev → P ev) (ha : ∀ k, P (.alloc k)) (hr : ∀ k, P (.realloc k))
    (e : Env) (c : Conn) (b : Bunch) : Adds P c (c.sendBunch e b).1 := by
  have hraw : Adds P c (c.sendRaw e b).1 := by
    unfold Conn.sendRaw
    split
    · exact Adds.refl _ _
    · unfold Conn.sendCommit
      dsimp only
      have a1 : Adds P c ((c.getOrCreateChan b false).1.noteClose b) :=
        (getOrCreateChan_adds' ha hr c b false).trans (noteClose_adds _ _ b)
      generalize (c.getOrCreateChan b false).1.noteClose b = c1 at a1 ⊢
      split
      · exact a1
      · rename_i x hx
        generalize (if b.bReliable = true then x.outReliable + 1 else 0 : Int) = seq
        generalize (if b.bReliable = true then (encodeBunchHeader { b with chSeq := seq }).getD _ else _) = hdr
        have g2 : Adds P c1 (if b.bReliable = true then c1.setChan b.chIndex { x with outReliable := seq } else c1) := by
          split
          · exact setChan_adds _ _ _ _
          · exact Adds.refl _ _
        generalize (if b.bReliable = true then c1.setChan b.chIndex { x with outReliable := seq } else c1) = c2 at g2 ⊢
        have a4 : Adds P c ((c2.prepareWrite e (hdr.length + b.data.length)).writeInternal e (hdr ++ b.data)).1 :=
          ((a1.trans g2).trans ((prepareWrite_adds e c2 _).mono hout)).trans ((writeInternal_adds e _ _).mono hout)
        split
        · refine Adds.trans (a4.emit_trans (.alloc .node) (ha _)) ?_
          apply Adds.of_log_eq
          unfold Conn.addOutRec
          split <;> rfl
        · exact a4
  unfold Conn.sendBunch
  generalize c.sendRaw e b = r at hraw ⊢
  obtain ⟨c', rr⟩ := r
  simp only at hraw ⊢
  split <;> exact hraw

/-- `utcp_update` appends only allocator events and at most one disconnect report -/
theorem update_adds_gen {P : Event → Prop} (hf : ∀ k, P (.free k)) (hd : ∀ r, P (.disconnect r)) (e : Env) (c : Conn) :
    Adds P c (c.checkTimeout e).updateTail.1 := by
  have hfn : ∀ ev, isFreeNode ev → P ev := by
    intro ev hev
    cases ev with
    | free k => exact hf k
    | _ => simp [isFreeNode] at hev
  have hfree : ∀ (c : Conn) (x : Channel), Adds P c (c.freeChan x) := by
    intro c x
    unfold Conn.freeChan
    dsimp only
    refine Adds.emit_trans ?_ _ (hf _)
    exact (((freeNodes_adds c _).mono hfn).trans ((freeNodes_adds _ _).mono hfn)).trans ((freeNodes_adds _ _).mono hfn)
  have h1 : Adds P c (c.checkTimeout e) := by
    unfold Conn.checkTimeout
    split
    · exact markClose_adds _ _ _
    · exact Adds.refl _ _
  have hdc : ∀ c : Conn, Adds P c c.delayClose := by
    intro c
    unfold Conn.delayClose
    split
    · exact Adds.refl _ _
    · dsimp only
      have hfold : ∀ (l : List (Nat × Channel)) (c' : Conn),
          Adds P c' (l.foldl (fun c (p : Nat × Channel) =>
            if !p.2.bClose then c
            else if !p.2.outRec.isEmpty then { c with hasChannelClose := true }
            else { c.freeChan p.2 with chans := c.chans.filter (·.1 != p.1) }) c') := by
        intro l
        induction l with
        | nil => intro c'; exact Adds.refl _ _
        | cons p rest ih =>
          intro c'
          simp only [List.foldl_cons]
          split
          · exact ih _
          · split
            · exact (Adds.of_log_eq rfl : Adds P c' { c' with hasChannelClose := true }).trans (ih _)
            · exact ((hfree c' p.2).trans (Adds.of_log_eq rfl)).trans (ih _)
      exact (Adds.of_log_eq rfl : Adds P c { c with hasChannelClose := false }).trans (hfold _ _)
  unfold Conn.updateTail
  dsimp only
  split
  · exact h1.trans (hdc _)
  · exact (h1.trans (hdc _)).emit_trans _ (hd _)

/-- the two fields the status bookkeeping reads are the same -/
structure CntSame (c c' : Conn) : Prop where
  lastNotified : c'.lastNotified = c.lastNotified
  outAckSeq : c'.notify.outAckSeq = c.notify.outAckSeq

theorem CntSame.refl (c : Conn) : CntSame c c := ⟨rfl, rfl⟩
theorem CntSame.trans {a b c : Conn} (h1 : CntSame a b) (h2 : CntSame b c) : CntSame a c := ⟨h2.1.trans h1.1, h2.2.trans h1.2⟩
theorem CntSame.of_keeps {c c' : Conn} (h : Keeps c c') : CntSame c c' := ⟨h.lastNotified, h.outAckSeq⟩
theorem CntSame.of_sameN {c c' : Conn} (h : SameN c c') : CntSame c c' := ⟨h.lastNotified, by rw [h.notify]⟩

theorem sendBunch_cntsame (e : Env) (c : Conn) (b : Bunch) : CntSame c (c.sendBunch e b).1 := by
  have hraw : CntSame c (c.sendRaw e b).1 := by
    unfold Conn.sendRaw
    split
    · exact CntSame.refl _
    · unfold Conn.sendCommit
      dsimp only
      have h1 : CntSame c ((c.getOrCreateChan b false).1.noteClose b) :=
        (CntSame.of_sameN (getOrCreateChan_sameN c b false)).trans (CntSame.of_sameN (noteClose_sameN _ b))
      generalize (c.getOrCreateChan b false).1.noteClose b = c1 at h1 ⊢
      split
      · exact h1
      · rename_i x hx
        generalize (if b.bReliable = true then x.outReliable + 1 else 0 : Int) = seq
        generalize (if b.bReliable = true then (encodeBunchHeader { b with chSeq := seq }).getD _ else _) = hdr
        have h2 : CntSame c1 (if b.bReliable = true then c1.setChan b.chIndex { x with outReliable := seq } else c1) := by
          split
          · exact CntSame.of_sameN (setChan_sameN _ _ _)
          · exact CntSame.refl _
        generalize (if b.bReliable = true then c1.setChan b.chIndex { x with outReliable := seq } else c1) = c2 at h2 ⊢
        have h4 : CntSame c ((c2.prepareWrite e (hdr.length + b.data.length)).writeInternal e (hdr ++ b.data)).1 :=
          ((h1.trans h2).trans (CntSame.of_keeps (prepareWrite_keeps e c2 _))).trans (CntSame.of_keeps (writeInternal_keeps e _ _))
        split
        · have h5 : CntSame c (((c2.prepareWrite e (hdr.length + b.data.length)).writeInternal e (hdr ++ b.data)).1.emit (.alloc .node)) :=
            h4.trans (CntSame.of_sameN (emit_sameN _ _))
          refine h5.trans ?_
          unfold Conn.addOutRec
          split
          · exact CntSame.refl _
          · exact CntSame.of_sameN (setChan_sameN _ _ _)
        · exact h4
  unfold Conn.sendBunch
  generalize c.sendRaw e b = r at hraw ⊢
  obtain ⟨c', rr⟩ := r
  simp only at hraw ⊢
  split <;> exact hraw

theorem update_cntsame (e : Env) (c : Conn) : CntSame c (c.checkTimeout e).updateTail.1 := by
  have same : ∀ c c' : Conn, c'.notify = c.notify → c'.lastNotified = c.lastNotified → CntSame c c' := fun c c' h1 h2 => ⟨h2, by rw [h1]⟩
  have h1 : CntSame c (c.checkTimeout e) := by
    unfold Conn.checkTimeout
    split
    · exact CntSame.of_sameN (markClose_sameN _ _)
    · exact CntSame.refl _
  have hfree : ∀ (c : Conn) (x : Channel), CntSame c (c.freeChan x) := by
    intro c x
    unfold Conn.freeChan
    dsimp only
    exact (((CntSame.of_sameN (freeNodes_sameN c _)).trans (CntSame.of_sameN (freeNodes_sameN _ _))).trans (CntSame.of_sameN (freeNodes_sameN _ _))).trans (CntSame.of_sameN (emit_sameN _ _))
  have hd : ∀ c : Conn, CntSame c c.delayClose := by
    intro c
    unfold Conn.delayClose
    split
    · exact CntSame.refl _
    · dsimp only
      have hgen : ∀ (f : Conn → Nat × Channel → Conn), (∀ c p, CntSame c (f c p)) → ∀ (l : List (Nat × Channel)) (c' : Conn), CntSame c' (l.foldl f c') := by
        intro f hf l
        induction l with
        | nil => intro c'; exact CntSame.refl _
        | cons p rest ih => intro c'; exact (hf c' p).trans (ih _)
      refine (same c { c with hasChannelClose := false } rfl rfl).trans (hgen _ ?_ _ _)
      intro c' p
      split
      · exact CntSame.refl _
      · split
        · exact same _ _ rfl rfl
        · exact (hfree c' p.2).trans (same _ _ rfl rfl)
  unfold Conn.updateTail
  dsimp only
  split
  · exact h1.trans (hd _)
  · exact (h1.trans (hd _)).trans (CntSame.of_sameN (emit_sameN _ _))

end Utcp.Props.C02Hist
