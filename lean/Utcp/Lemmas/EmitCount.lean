import Utcp.Lemmas.OutId
/-! helper lemmas for `Props/C02_Ids.lean`: every datagram a connection emits consumes exactly one packet id — through every function that can emit one -/
namespace Utcp.Props.C02Hist
open Utcp Utcp.Gen Utcp.Props

def isOutB : Event → Bool | .out _ => true | _ => false

/-- number of datagrams emitted so far -/
def outs (log : List Event) : Nat := (log.filter isOutB).length

/-- datagrams emitted by the step = packet ids consumed by the step -/
def ECnt (c c' : Conn) : Prop := ((outs c'.log : Nat) : Int) - (outs c.log : Nat) = c'.outPacketId - c.outPacketId

theorem ECnt.refl (c : Conn) : ECnt c c := by unfold ECnt; omega
theorem ECnt.trans {a b c : Conn} (h1 : ECnt a b) (h2 : ECnt b c) : ECnt a c := by unfold ECnt at *; omega
theorem ECnt.of_eq {c c' : Conn} (h1 : c'.log = c.log) (h2 : c'.outPacketId = c.outPacketId) : ECnt c c' := by
  unfold ECnt; rw [h1, h2]; omega
def NoOut (ev : Event) : Prop := isOutB ev = false
theorem ECnt.of_adds {c c' : Conn} (a : Adds NoOut c c') (h2 : c'.outPacketId = c.outPacketId) : ECnt c c' := by
  unfold ECnt outs
  rw [a.filter_eq isOutB (fun _ h => h), h2]; omega
theorem ECnt.of_sameN {c c' : Conn} (h : SameN c c') (a : Adds NoOut c c') : ECnt c c' := ECnt.of_adds a h.outPacketId
theorem noOut_recvPred : RecvPred NoOut := ⟨fun _ => rfl, fun _ => rfl, fun _ => rfl, fun _ _ _ => rfl⟩
theorem noOut_freeNode (ev : Event) (h : isFreeNode ev) : NoOut ev := by cases ev <;> simp_all [isFreeNode, NoOut, isOutB]

theorem startPacket_ecnt (c : Conn) : ECnt c c.startPacket := ECnt.of_eq rfl rfl

/-- the one place where a datagram leaves: one datagram, one id -/
theorem flushNow_ecnt (e : Env) (c : Conn) : ECnt c (c.flushNow e) := by
  unfold ECnt outs
  show (((Event.out (bitsToBytes (c.packetBits e)) :: c.log).filter isOutB).length : Int) - _ = (c.outPacketId + 1) - c.outPacketId
  simp [List.filter_cons, isOutB]
  omega

theorem flush_ecnt (e : Env) (c : Conn) : ECnt c (c.flush e) := by
  unfold Conn.flush
  split
  · exact ECnt.refl _
  · split
    · exact flushNow_ecnt e c
    · exact (startPacket_ecnt c).trans (flushNow_ecnt e _)

theorem prepareWrite_ecnt (e : Env) (c : Conn) (n : Nat) : ECnt c (c.prepareWrite e n) := by
  unfold Conn.prepareWrite
  dsimp only
  split
  · split
    · exact (flush_ecnt e c).trans (startPacket_ecnt _)
    · exact flush_ecnt e c
  · split
    · exact startPacket_ecnt _
    · exact ECnt.refl _

theorem writeInternal_ecnt (e : Env) (c : Conn) (bits : Bits) : ECnt c (c.writeInternal e bits).1 := by
  unfold Conn.writeInternal
  dsimp only
  have h0 : ECnt c { c with sendBody := c.sendBody ++ bits } := ECnt.of_eq rfl rfl
  split
  · exact h0.trans (flush_ecnt e _)
  · exact h0

theorem writeBits_ecnt (e : Env) (c : Conn) (bits : Bits) : ECnt c (c.writeBits e bits).1 := by
  unfold Conn.writeBits
  exact (prepareWrite_ecnt e c _).trans (writeInternal_ecnt e _ bits)

theorem setChan_ecnt (c : Conn) (ch : Nat) (x : Channel) : ECnt c (c.setChan ch x) := ECnt.of_eq rfl rfl
theorem emit_ecnt (c : Conn) (ev : Event) (h : NoOut ev) : ECnt c (c.emit ev) := ECnt.of_adds (Adds.emit c ev h) rfl

theorem resendNodes_ecnt (e : Env) (ch : Nat) (nodes : List OutNode) : ∀ c : Conn, ECnt c (c.resendNodes e ch nodes) := by
  induction nodes with
  | nil => intro c; exact ECnt.refl _
  | cons n rest ih =>
    intro c
    unfold Conn.resendNodes
    dsimp only
    refine (writeBits_ecnt e c n.bits).trans ?_
    refine ECnt.trans ?_ (ih _)
    split
    · exact ECnt.refl _
    · exact setChan_ecnt _ _ _

theorem onNakChans_ecnt (e : Env) (pid : Int) (chs : List Nat) : ∀ c : Conn, ECnt c (c.onNakChans e pid chs) := by
  induction chs with
  | nil => intro c; exact ECnt.refl _
  | cons ch rest ih =>
    intro c
    unfold Conn.onNakChans
    split
    · exact ih c
    · dsimp only
      exact ((setChan_ecnt c ch _).trans (resendNodes_ecnt e ch _ _)).trans (ih _)

theorem foldl_emit_ecnt {α} (ev : Event) (hev : NoOut ev) (l : List α) : ∀ c : Conn, ECnt c (l.foldl (fun c _ => c.emit ev) c) := by
  induction l with
  | nil => intro c; exact ECnt.refl _
  | cons _ rest ih => intro c; exact (emit_ecnt c ev hev).trans (ih _)

theorem onAckChans_ecnt (pid : Int) (chs : List Nat) : ∀ c : Conn, ECnt c (c.onAckChans pid chs) := by
  induction chs with
  | nil => intro c; exact ECnt.refl _
  | cons ch rest ih =>
    intro c
    unfold Conn.onAckChans
    split
    · exact ih c
    · dsimp only
      exact ((setChan_ecnt c ch _).trans (foldl_emit_ecnt (.free .node) (show isOutB (Event.free Kind.node) = false from rfl) _ _)).trans (ih _)

theorem handleNotification_ecnt (e : Env) (c : Conn) (v : Int × Bool) : ECnt c (c.handleNotification e v) := by
  unfold Conn.handleNotification
  dsimp only
  have h0 : ECnt c { c with lastNotified := c.lastNotified + 1 } := ECnt.of_eq rfl rfl
  split
  · exact h0
  · split
    · refine h0.trans ?_
      refine ECnt.trans (ECnt.of_eq rfl rfl : ECnt _ { { c with lastNotified := c.lastNotified + 1 } with outAckPacketId := c.lastNotified + 1 }) ?_
      exact (onAckChans_ecnt _ _ _).trans (emit_ecnt _ _ rfl)
    · exact h0.trans ((onNakChans_ecnt e _ _ _).trans (emit_ecnt _ _ rfl))

theorem notifyUpdate_ecnt (e : Env) (c : Conn) (h : NotifHeader) : ECnt c (c.notifyUpdate e h) := by
  unfold Conn.notifyUpdate
  dsimp only
  have hfold : ∀ (vs : List (Int × Bool)) (c : Conn), ECnt c (vs.foldl (Conn.handleNotification e) c) := by
    intro vs
    induction vs with
    | nil => intro c; exact ECnt.refl _
    | cons v rest ih => intro c; exact (handleNotification_ecnt e c v).trans (ih _)
  split
  · have h1 : ECnt c { c with notify := c.notify.updateInAckSeqAck (seq_num_diff h.ackedSeq c.notify.outAckSeq).toNat h.ackedSeq } :=
      ECnt.of_eq rfl rfl
    have h2 := h1.trans (hfold (verdicts c.notify.outAckSeq h (seq_num_diff h.ackedSeq c.notify.outAckSeq).toNat) _)
    exact h2.trans (ECnt.of_eq rfl rfl)
  · exact ECnt.of_eq rfl rfl

theorem receivedPacket_ecnt (e : Env) (c : Conn) (bits : Bits) : ECnt c (c.receivedPacket e bits).1 := by
  unfold Conn.receivedPacket
  split
  · exact ECnt.of_sameN (markClose_sameN _ _) (markClose_adds _ _ _)
  · rename_i h rest hd
    dsimp only
    split
    · exact ECnt.refl _
    · have h1 : ECnt c { c with inPacketId := c.inPacketId + c.notify.deltaSeq h } := ECnt.of_eq rfl rfl
      have h2 := h1.trans (notifyUpdate_ecnt e _ h)
      generalize Conn.notifyUpdate e { c with inPacketId := c.inPacketId + c.notify.deltaSeq h } h = c2 at h2 ⊢
      have k3 := bunchLoop_sameN (rest.length + 1) c2 rest false
      have a3 := bunchLoop_adds noOut_recvPred (rest.length + 1) c2 rest false
      generalize Conn.bunchLoop (rest.length + 1) c2 rest false = r at k3 a3 ⊢
      obtain ⟨c3, rest3, skip3⟩ := r
      simp only at k3 a3 ⊢
      refine (h2.trans (ECnt.of_sameN k3 a3)).trans ?_
      exact ECnt.of_eq rfl rfl

theorem sendBunch_ecnt (e : Env) (c : Conn) (b : Bunch) : ECnt c (c.sendBunch e b).1 := by
  have hraw : ECnt c (c.sendRaw e b).1 := by
    unfold Conn.sendRaw
    split
    · exact ECnt.refl _
    · unfold Conn.sendCommit
      dsimp only
      have h1 : ECnt c ((c.getOrCreateChan b false).1.noteClose b) :=
        (ECnt.of_sameN (getOrCreateChan_sameN c b false) (getOrCreateChan_adds' (fun _ => rfl) (fun _ => rfl) c b false)).trans (ECnt.of_sameN (noteClose_sameN _ b) (noteClose_adds _ _ b))
      generalize (c.getOrCreateChan b false).1.noteClose b = c1 at h1 ⊢
      split
      · exact h1
      · rename_i x hx
        generalize (if b.bReliable = true then x.outReliable + 1 else 0 : Int) = seq
        generalize (if b.bReliable = true then (encodeBunchHeader { b with chSeq := seq }).getD _ else _) = hdr
        have h2 : ECnt c1 (if b.bReliable = true then c1.setChan b.chIndex { x with outReliable := seq } else c1) := by
          split
          · exact setChan_ecnt _ _ _
          · exact ECnt.refl _
        generalize (if b.bReliable = true then c1.setChan b.chIndex { x with outReliable := seq } else c1) = c2 at h2 ⊢
        have h4 : ECnt c ((c2.prepareWrite e (hdr.length + b.data.length)).writeInternal e (hdr ++ b.data)).1 :=
          ((h1.trans h2).trans (prepareWrite_ecnt e c2 _)).trans (writeInternal_ecnt e _ _)
        split
        · have h5 : ECnt c (((c2.prepareWrite e (hdr.length + b.data.length)).writeInternal e (hdr ++ b.data)).1.emit (.alloc .node)) :=
            h4.trans (emit_ecnt _ _ rfl)
          refine h5.trans ?_
          unfold Conn.addOutRec
          split
          · exact ECnt.refl _
          · exact setChan_ecnt _ _ _
        · exact h4
  unfold Conn.sendBunch
  generalize c.sendRaw e b = r at hraw ⊢
  obtain ⟨c', rr⟩ := r
  simp only at hraw ⊢
  split <;> exact hraw

theorem update_ecnt (e : Env) (c : Conn) : ECnt c (c.checkTimeout e).updateTail.1 := by
  have h1 : ECnt c (c.checkTimeout e) := by
    unfold Conn.checkTimeout
    split
    · exact ECnt.of_sameN (markClose_sameN _ _) (markClose_adds _ _ _)
    · exact ECnt.refl _
  have hfree : ∀ (c : Conn) (x : Channel), ECnt c (c.freeChan x) := by
    intro c x
    unfold Conn.freeChan
    dsimp only
    exact (((ECnt.of_sameN (freeNodes_sameN c _) ((freeNodes_adds c _).mono noOut_freeNode)).trans (ECnt.of_sameN (freeNodes_sameN _ _) ((freeNodes_adds _ _).mono noOut_freeNode))).trans (ECnt.of_sameN (freeNodes_sameN _ _) ((freeNodes_adds _ _).mono noOut_freeNode))).trans (emit_ecnt _ _ rfl)
  have hd : ∀ c : Conn, ECnt c c.delayClose := by
    intro c
    unfold Conn.delayClose
    split
    · exact ECnt.refl _
    · dsimp only
      have hgen : ∀ (f : Conn → Nat × Channel → Conn), (∀ c p, ECnt c (f c p)) → ∀ (l : List (Nat × Channel)) (c' : Conn), ECnt c' (l.foldl f c') := by
        intro f hf l
        induction l with
        | nil => intro c'; exact ECnt.refl _
        | cons p rest ih => intro c'; exact (hf c' p).trans (ih _)
      refine (ECnt.of_eq rfl rfl : ECnt c { c with hasChannelClose := false }).trans (hgen _ ?_ _ _)
      intro c' p
      split
      · exact ECnt.refl _
      · split
        · exact ECnt.of_eq rfl rfl
        · exact (hfree c' p.2).trans (ECnt.of_eq rfl rfl)
  unfold Conn.updateTail
  dsimp only
  split
  · exact h1.trans (hd _)
  · exact (h1.trans (hd _)).trans (emit_ecnt _ _ rfl)

end Utcp.Props.C02Hist
