import Utcp.Props.C12_Bytes
import Utcp.Bunch
/-! Byte-level readers as a monad (`LRd`) and the refinement relation to the bit-level readers of `Utcp/BitIO.lean`: whatever is composed from the
primitives with `bind`, `pure`, `if` refines the bit-level reader composed the same way - and never touches a byte outside the arrays. -/
namespace Utcp.BB

/-- `bitbuf_read_bits` into any array that is large enough (e.g. the 1452-byte data field of a bunch): no access outside either array, and the
first `n` bits of the array afterwards are the bits read -/
theorem readBits_into (b : Buf) (hb : RB b) (out : Mem) (hout : BytesOK out) (n : Nat) (hlen : (n + 7) / 8 ≤ out.length) :
    ∃ ok out' b', readBits b out n = some (ok, out', b') ∧ RB b' ∧ b'.mem = b.mem ∧ b'.size = b.size ∧ out'.length = out.length ∧ BytesOK out' ∧
      Utcp.readBits n (rest b) = (if ok then .ok (bitsFrom out' 0 n) (rest b') else .fail (rest b')) := by
  unfold readBits allowOpt
  have hs := hb.size
  by_cases hfit : b.num + n ≤ b.size
  · simp only [hfit, decide_true, Bool.not_true, Bool.false_eq_true, if_false]
    have hsplit := rest_split b n hfit
    have hrb : RB { b with num := b.num + n } := ⟨hb.bytes, hb.size, hfit⟩
    by_cases h1 : n = 1
    · subst h1
      rw [if_pos rfl, wr_of_lt _ _ _ (by omega)]
      simp only [Option.bind_some]
      rw [testAt_spec _ _ (by omega)]
      simp only [Option.bind_some]
      have hz0 : bit (out.set 0 (0 % 256)) 0 = false := by
        rw [bit_set _ _ _ _ (by omega), if_pos (by rfl)]; simp
      cases hbit : bit b.mem b.num
      · simp only [Bool.false_eq_true, if_false]
        refine ⟨true, _, _, rfl, hrb, rfl, rfl, by simp, bytesOK_set out hout _ _, ?_⟩
        rw [hsplit, sReadBits_ok 1 _ _ (by simp)]
        simp only [if_true, bitsFrom]
        rw [hz0, hbit]
      · simp only [if_true]
        rw [rd_of_lt _ _ (by simp; omega)]
        simp only [Option.bind_some]
        rw [wr_of_lt _ _ _ (by simp; omega)]
        refine ⟨true, _, _, rfl, hrb, rfl, rfl, by simp, bytesOK_set _ (bytesOK_set out hout _ _) _ _, ?_⟩
        rw [hsplit, sReadBits_ok 1 _ _ (by simp)]
        simp only [if_true, bitsFrom]
        rw [hbit, bit_set _ _ _ _ (by simp; omega), if_pos (by rfl), testBit_mod256, Nat.testBit_or]
        simp
    · rw [if_neg h1]
      by_cases h0 : n = 0
      · subst h0
        simp only [ne_eq, not_true_eq_false, if_false]
        refine ⟨true, out, b, rfl, hb, rfl, rfl, rfl, hout, ?_⟩
        simp [Utcp.readBits, bitsFrom]
      · rw [if_pos h0, wr_of_lt _ _ _ (by omega)]
        simp only [Option.bind_some]
        have ok0 : BytesOK (out.set ((n + 7) / 8 - 1) (0 % 256)) := bytesOK_set out hout _ _
        obtain ⟨o1, ho1, hl1, hk1, hbits1⟩ := appBitsCpy_spec (out.set ((n + 7) / 8 - 1) (0 % 256)) b.mem ok0 hb.bytes 0 b.num n (by simp; omega) (by omega)
        rw [ho1]
        simp only [Option.bind_some]
        refine ⟨true, o1, _, rfl, hrb, rfl, rfl, by rw [hl1]; simp, hk1, ?_⟩
        rw [hsplit, sReadBits_ok n _ _ (by simp)]
        simp only [if_true]
        congr 1
        apply bitsFrom_shift
        intro i hi
        rw [hbits1 (0 + i)]
        have : 0 ≤ 0 + i ∧ 0 + i < 0 + n := by omega
        rw [if_pos this]
        congr 1; omega
  · refine ⟨false, out, b, by simp [hfit], hb, rfl, rfl, rfl, hout, ?_⟩
    simp only [Bool.false_eq_true, if_false]
    unfold Utcp.readBits
    have hnum := hb.num
    have : ¬ (n ≤ (rest b).length) := by unfold rest; simp; omega
    rw [if_neg this]

end Utcp.BB

namespace Utcp.BB
open Utcp

/-- a byte-level reader: `none` = a byte outside an array was touched; otherwise the value (`none` = the C function returned false) and the buffer afterwards -/
def LRd (α : Type) := Buf → Option (Option α × Buf)

def LRd.pure {α} (a : α) : LRd α := fun b => some (some a, b)
def LRd.failHere {α} : LRd α := fun b => some (none, b)
def LRd.bind {α β} (m : LRd α) (f : α → LRd β) : LRd β := fun b =>
  match m b with
  | none => none
  | some (none, b') => some (none, b')
  | some (some a, b') => f a b'

/-- the byte-level reader does, on the remaining bits, what the bit-level reader does: same value or failure, same remainder; it stays inside the arrays
and leaves array and size alone -/
def Refines {α} (l : LRd α) (s : Rd α) : Prop :=
  ∀ b, RB b → ∃ r b', l b = some (r, b') ∧ RB b' ∧ b'.mem = b.mem ∧ b'.size = b.size ∧
    s (rest b) = (match r with | some v => RR.ok v (rest b') | none => RR.fail (rest b'))

theorem Refines.pure {α} (a : α) : Refines (LRd.pure a) (Pure.pure a : Rd α) :=
  fun b hb => ⟨some a, b, rfl, hb, rfl, rfl, rfl⟩

theorem Refines.failHere {α} : Refines (LRd.failHere : LRd α) (Rd.failHere : Rd α) :=
  fun b hb => ⟨none, b, rfl, hb, rfl, rfl, rfl⟩

theorem Refines.bind {α β} {l : LRd α} {s : Rd α} {lf : α → LRd β} {sf : α → Rd β} (h : Refines l s) (hf : ∀ a, Refines (lf a) (sf a)) :
    Refines (l.bind lf) (s >>= sf) := by
  intro b hb
  obtain ⟨r, b1, h1, hrb1, hm1, hs1, hS1⟩ := h b hb
  cases r with
  | none =>
    refine ⟨none, b1, by simp [LRd.bind, h1], hrb1, hm1, hs1, ?_⟩
    rw [Rd.bind_apply, hS1]
  | some a =>
    obtain ⟨r2, b2, h2, hrb2, hm2, hs2, hS2⟩ := hf a b1 hrb1
    refine ⟨r2, b2, by simp [LRd.bind, h1, h2], hrb2, hm2.trans hm1, hs2.trans hs1, ?_⟩
    rw [Rd.bind_apply, hS1]
    exact hS2

theorem Refines.ite {α} (c : Bool) {l1 l2 : LRd α} {s1 s2 : Rd α} (h1 : Refines l1 s1) (h2 : Refines l2 s2) :
    Refines (if c then l1 else l2) (if c then s1 else s2) := by
  cases c
  · exact h2
  · exact h1

/-! the primitives as `LRd` -/
def lReadBit : LRd Bool := fun b => (readBit b).map fun (ok, v, b') => (if ok then some (decide (v = 1)) else none, b')
def lReadInt (mx : Nat) : LRd Nat := fun b => (readInt b mx).map fun (ok, v, b') => (if ok then some v else none, b')
def lReadIntPacked : LRd Nat := fun b => (readIntPacked b).map fun (ok, v, b') => (if ok then some v else none, b')
/-- `bitbuf_read_bits(bitbuf, out, n)`; the value is what the first `n` bits of the array hold afterwards -/
def lReadBitsInto (out : Mem) (n : Nat) : LRd Bits := fun b => (readBits b out n).map fun (ok, o, b') => (if ok then some (bitsFrom o 0 n) else none, b')

theorem lReadBit_refines : Refines lReadBit Utcp.readBit := by
  intro b hb
  obtain ⟨ok, v, b', h, hrb, hm, hs, hS, _⟩ := readBit_refines b hb
  refine ⟨if ok then some (decide (v = 1)) else none, b', by simp [lReadBit, h], hrb, hm, hs, ?_⟩
  rw [hS]; cases ok <;> rfl

theorem lReadInt_refines (mx : Nat) : Refines (lReadInt mx) (Utcp.readInt mx) := by
  intro b hb
  obtain ⟨ok, v, b', h, hrb, hm, hs, hS, _⟩ := readInt_refines b hb mx
  refine ⟨if ok then some v else none, b', by simp [lReadInt, h], hrb, hm, hs, ?_⟩
  rw [hS]; cases ok <;> rfl

theorem lReadIntPacked_refines : Refines lReadIntPacked Utcp.readIntPacked := by
  intro b hb
  obtain ⟨ok, v, b', h, hrb, hm, hs, hS⟩ := readIntPacked_refines b hb
  refine ⟨if ok then some v else none, b', by simp [lReadIntPacked, h], hrb, hm, hs, ?_⟩
  rw [hS]; cases ok <;> rfl

theorem lReadBitsInto_refines (out : Mem) (hout : BytesOK out) (n : Nat) (hlen : (n + 7) / 8 ≤ out.length) :
    Refines (lReadBitsInto out n) (Utcp.readBits n) := by
  intro b hb
  obtain ⟨ok, o, b', h, hrb, hm, hs, _, _, hS⟩ := readBits_into b hb out hout n hlen
  refine ⟨if ok then some (bitsFrom o 0 n) else none, b', by simp [lReadBitsInto, h], hrb, hm, hs, ?_⟩
  rw [hS]; cases ok <;> rfl

end Utcp.BB

namespace Utcp.BB
open Utcp

theorem Refines.bind' {α β} {l : LRd α} {s : Rd α} {lf : α → LRd β} {sf : α → Rd β} (P : α → Prop) (h : Refines l s)
    (hP : ∀ bs v r, s bs = .ok v r → P v) (hf : ∀ a, P a → Refines (lf a) (sf a)) : Refines (l.bind lf) (s >>= sf) := by
  intro b hb
  obtain ⟨r, b1, h1, hrb1, hm1, hs1, hS1⟩ := h b hb
  cases r with
  | none =>
    refine ⟨none, b1, by simp [LRd.bind, h1], hrb1, hm1, hs1, ?_⟩
    rw [Rd.bind_apply, hS1]
  | some a =>
    obtain ⟨r2, b2, h2, hrb2, hm2, hs2, hS2⟩ := hf a (hP _ _ _ hS1) b1 hrb1
    refine ⟨r2, b2, by simp [LRd.bind, h1, h2], hrb2, hm2.trans hm1, hs2.trans hs1, ?_⟩
    rw [Rd.bind_apply, hS1]
    exact hS2

theorem rIntLoop_lt (mx : Nat) (start : Bits) : ∀ (fuel mask nv : Nat) (bs : Bits) (v : Nat) (r : Bits), nv < mx →
    Utcp.rIntLoop fuel mx mask nv start bs = .ok v r → v < mx := by
  intro fuel
  induction fuel with
  | zero => intro mask nv bs v r hnv h; simp [Utcp.rIntLoop] at h; omega
  | succ f ih =>
    intro mask nv bs v r hnv h
    unfold Utcp.rIntLoop at h
    by_cases hc : nv + mask < mx ∧ mask < 2 ^ 32
    · simp only [hc, and_self, if_true] at h
      cases bs with
      | nil => simp at h
      | cons x rest =>
        simp only at h
        refine ih (mask * 2) _ rest v r ?_ h
        split <;> omega
    · simp only [hc, if_false] at h
      simp at h; omega

/-- a bounded integer read is below its maximum -/
theorem readInt_lt (mx : Nat) (hmx : 0 < mx) (bs : Bits) (v : Nat) (r : Bits) (h : Utcp.readInt mx bs = .ok v r) : v < mx :=
  rIntLoop_lt mx bs 33 1 0 bs v r hmx h

end Utcp.BB
