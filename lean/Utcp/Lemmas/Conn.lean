import Utcp.Conn
/-! Field-projection and channel-table lemmas for the connection model. -/
namespace Utcp
open Gen

/-! ### channel table -/
theorem find_insertSorted_self (ch : Nat) (x : Channel) (l : List (Nat × Channel)) :
    ((insertSorted ch x l).find? (·.1 == ch)).map (·.2) = some x := by
  induction l with
  | nil => simp [insertSorted]
  | cons p rest ih =>
    obtain ⟨k, v⟩ := p
    simp only [insertSorted]
    by_cases h1 : ch < k
    · simp [h1]
    · by_cases h2 : ch = k
      · subst h2; simp
      · have : (ch == k) = false := by simp [h2]
        have hk : (k == ch) = false := by simp; omega
        simp [h1, this, hk, ih]

theorem find_insertSorted_other (ch ch' : Nat) (x : Channel) (l : List (Nat × Channel)) (hne : ch' ≠ ch) :
    ((insertSorted ch x l).find? (·.1 == ch')).map (·.2) = (l.find? (·.1 == ch')).map (·.2) := by
  induction l with
  | nil =>
    have : (ch == ch') = false := by simp; omega
    simp [insertSorted, this]
  | cons p rest ih =>
    obtain ⟨k, v⟩ := p
    simp only [insertSorted]
    have hc : (ch == ch') = false := by simp; omega
    by_cases h1 : ch < k
    · simp [h1, List.find?_cons, hc]
    · by_cases h2 : ch = k
      · subst h2
        simp [List.find?_cons, hc]
      · have : (ch == k) = false := by simp [h2]
        simp only [h1, this, if_false, Bool.false_eq_true, List.find?_cons]
        by_cases h3 : (k == ch') = true
        · simp [h3]
        · simp [h3, ih]

@[simp] theorem getChan_setChan_self (c : Conn) (ch : Nat) (x : Channel) : (c.setChan ch x).getChan ch = some x := by
  unfold Conn.setChan Conn.getChan
  exact find_insertSorted_self ch x c.chans

theorem getChan_setChan_other (c : Conn) (ch ch' : Nat) (x : Channel) (h : ch' ≠ ch) : (c.setChan ch x).getChan ch' = c.getChan ch' := by
  unfold Conn.setChan Conn.getChan
  exact find_insertSorted_other ch ch' x c.chans h

/-! ### projections through the small state updates -/
@[simp] theorem emit_log (c : Conn) (e : Event) : (c.emit e).log = e :: c.log := rfl
@[simp] theorem emit_chans (c : Conn) (e : Event) : (c.emit e).chans = c.chans := rfl
@[simp] theorem emit_getChan (c : Conn) (e : Event) (ch : Nat) : (c.emit e).getChan ch = c.getChan ch := rfl
@[simp] theorem emit_outPacketId (c : Conn) (e : Event) : (c.emit e).outPacketId = c.outPacketId := rfl
@[simp] theorem emit_notify (c : Conn) (e : Event) : (c.emit e).notify = c.notify := rfl
@[simp] theorem emit_bClose (c : Conn) (e : Event) : (c.emit e).bClose = c.bClose := rfl
@[simp] theorem emit_sendActive (c : Conn) (e : Event) : (c.emit e).sendActive = c.sendActive := rfl
@[simp] theorem emit_inPacketId (c : Conn) (e : Event) : (c.emit e).inPacketId = c.inPacketId := rfl
@[simp] theorem setChan_log (c : Conn) (ch : Nat) (x : Channel) : (c.setChan ch x).log = c.log := rfl
@[simp] theorem setChan_outPacketId (c : Conn) (ch : Nat) (x : Channel) : (c.setChan ch x).outPacketId = c.outPacketId := rfl
@[simp] theorem setChan_notify (c : Conn) (ch : Nat) (x : Channel) : (c.setChan ch x).notify = c.notify := rfl
@[simp] theorem setChan_inPacketId (c : Conn) (ch : Nat) (x : Channel) : (c.setChan ch x).inPacketId = c.inPacketId := rfl

theorem markClose_log (c : Conn) (r : Nat) : (c.markClose r).log = c.log := by unfold Conn.markClose; split <;> rfl
theorem markClose_chans (c : Conn) (r : Nat) : (c.markClose r).chans = c.chans := by unfold Conn.markClose; split <;> rfl
theorem markClose_getChan (c : Conn) (r : Nat) (ch : Nat) : (c.markClose r).getChan ch = c.getChan ch := by
  unfold Conn.getChan; rw [markClose_chans]
theorem markClose_outPacketId (c : Conn) (r : Nat) : (c.markClose r).outPacketId = c.outPacketId := by unfold Conn.markClose; split <;> rfl
theorem markClose_notify (c : Conn) (r : Nat) : (c.markClose r).notify = c.notify := by unfold Conn.markClose; split <;> rfl
theorem markClose_inPacketId (c : Conn) (r : Nat) : (c.markClose r).inPacketId = c.inPacketId := by unfold Conn.markClose; split <;> rfl

theorem createChan_getChan (c : Conn) (ch : Nat) : ∃ x, (c.createChan ch).getChan ch = some x := by
  unfold Conn.createChan
  exact ⟨_, getChan_setChan_self _ _ _⟩

theorem createChan_outPacketId (c : Conn) (ch : Nat) : (c.createChan ch).outPacketId = c.outPacketId := by
  unfold Conn.createChan
  simp only [setChan_outPacketId]
  split
  · rfl
  · split <;> rfl

theorem getOrCreateChan_some (c : Conn) (b : Bunch) (inc : Bool) (h : (c.getChan b.chIndex).isSome ∨ b.bOpen = true ∨ (inc = true ∧ b.bReliable = true)) :
    ∃ x, (c.getOrCreateChan b inc).2 = some x ∧ (c.getOrCreateChan b inc).1.getChan b.chIndex = some x := by
  unfold Conn.getOrCreateChan
  cases hg : c.getChan b.chIndex with
  | some x => exact ⟨x, rfl, hg⟩
  | none =>
    have hc : (b.bOpen || (inc && b.bReliable)) = true := by
      rcases h with h | h | h
      · simp [hg] at h
      · simp [h]
      · simp [h.1, h.2]
    simp only [hc, if_true]
    obtain ⟨x, hx⟩ := createChan_getChan c b.chIndex
    exact ⟨x, hx, hx⟩

theorem getOrCreateChan_outPacketId (c : Conn) (b : Bunch) (inc : Bool) : (c.getOrCreateChan b inc).1.outPacketId = c.outPacketId := by
  unfold Conn.getOrCreateChan
  split
  · rfl
  · split
    · exact createChan_outPacketId c _
    · rfl

@[simp] theorem markClosed_bClose (x : Channel) (r : Nat) : (x.markClosed r).bClose = true := by
  unfold Channel.markClosed; split <;> simp_all
@[simp] theorem markClosed_outRec (x : Channel) (r : Nat) : (x.markClosed r).outRec = x.outRec := by
  unfold Channel.markClosed; split <;> rfl
@[simp] theorem markClosed_inRec (x : Channel) (r : Nat) : (x.markClosed r).inRec = x.inRec := by
  unfold Channel.markClosed; split <;> rfl
@[simp] theorem markClosed_inPartial (x : Channel) (r : Nat) : (x.markClosed r).inPartial = x.inPartial := by
  unfold Channel.markClosed; split <;> rfl
@[simp] theorem markClosed_inReliable (x : Channel) (r : Nat) : (x.markClosed r).inReliable = x.inReliable := by
  unfold Channel.markClosed; split <;> rfl
@[simp] theorem markClosed_outReliable (x : Channel) (r : Nat) : (x.markClosed r).outReliable = x.outReliable := by
  unfold Channel.markClosed; split <;> rfl
@[simp] theorem oweTeardown_getChan (c : Conn) (ch : Nat) : c.oweTeardown.getChan ch = c.getChan ch := rfl
@[simp] theorem oweTeardown_log (c : Conn) : c.oweTeardown.log = c.log := rfl
@[simp] theorem oweTeardown_outPacketId (c : Conn) : c.oweTeardown.outPacketId = c.outPacketId := rfl
@[simp] theorem oweTeardown_has (c : Conn) : c.oweTeardown.hasChannelClose = true := rfl

theorem noteClose_getChan_isSome (c : Conn) (b : Bunch) (ch : Nat) (h : (c.getChan ch).isSome) : ((c.noteClose b).getChan ch).isSome := by
  unfold Conn.noteClose
  split
  · exact h
  · have hm : ∀ r, ((c.markClose r).getChan ch).isSome := fun r => by rw [markClose_getChan]; exact h
    have hc : ((if (b.chIndex == 0) = true then c.markClose crControlChannelClose else c).getChan ch).isSome := by
      split
      · exact hm _
      · exact h
    generalize (if (b.chIndex == 0) = true then c.markClose crControlChannelClose else c) = c' at *
    dsimp only
    split
    · exact hc
    · rename_i x hx
      rw [oweTeardown_getChan]
      by_cases hch : ch = b.chIndex
      · subst hch; simp
      · rw [getChan_setChan_other _ _ _ _ hch]; exact hc

theorem noteClose_outPacketId (c : Conn) (b : Bunch) : (c.noteClose b).outPacketId = c.outPacketId := by
  unfold Conn.noteClose
  split
  · rfl
  · have hc : (if (b.chIndex == 0) = true then c.markClose crControlChannelClose else c).outPacketId = c.outPacketId := by
      split
      · exact markClose_outPacketId _ _
      · rfl
    generalize (if (b.chIndex == 0) = true then c.markClose crControlChannelClose else c) = c' at *
    dsimp only
    split
    · exact hc
    · exact hc

@[simp] theorem startPacket_outPacketId (c : Conn) : c.startPacket.outPacketId = c.outPacketId := rfl
@[simp] theorem startPacket_sendActive (c : Conn) : c.startPacket.sendActive = true := rfl
@[simp] theorem startPacket_sendBody (c : Conn) : c.startPacket.sendBody = [] := rfl

@[simp] theorem flushNow_outPacketId (e : Env) (c : Conn) : (c.flushNow e).outPacketId = c.outPacketId + 1 := rfl
@[simp] theorem flushNow_log (e : Env) (c : Conn) : (c.flushNow e).log = .out (bitsToBytes (c.packetBits e)) :: c.log := rfl
@[simp] theorem flushNow_sendActive (e : Env) (c : Conn) : (c.flushNow e).sendActive = false := rfl
@[simp] theorem flushNow_lastSendMs (e : Env) (c : Conn) : (c.flushNow e).lastSendMs = e.nowMs := rfl
@[simp] theorem flushNow_chans (e : Env) (c : Conn) : (c.flushNow e).chans = c.chans := rfl

@[simp] theorem startPacket_log (c : Conn) : c.startPacket.log = c.log := rfl
@[simp] theorem startPacket_chans (c : Conn) : c.startPacket.chans = c.chans := rfl

theorem flush_outPacketId_ge (e : Env) (c : Conn) : c.outPacketId ≤ (c.flush e).outPacketId := by
  unfold Conn.flush
  split
  · exact Int.le_refl _
  · split <;> simp [startPacket_outPacketId] <;> omega

theorem prepareWrite_outPacketId_ge (e : Env) (c : Conn) (n : Nat) : c.outPacketId ≤ (c.prepareWrite e n).outPacketId := by
  unfold Conn.prepareWrite
  have := flush_outPacketId_ge e c
  dsimp only
  split <;> split <;> simp [startPacket_outPacketId] <;> omega

end Utcp
