import Utcp.Lemmas.Emission
/-!
# What is kept for retransmission (sender side): only reliable bunches

`AllOKP (BitsN G) c`: the bits of every retransmission record of `c` satisfy `G`.  For predicates on the bits alone the acknowledgement
path keeps it (a NAK re-tags a record, it does not change its bits); with `G` = "is the encoding of a well-formed *reliable* bunch" a send
establishes it.  So an unreliable bunch is written to exactly one packet and never again.
-/
namespace Utcp
open Gen

def BitsN (G : Bits → Prop) : OutNode → Prop := fun n => G n.bits

variable {G : Bits → Prop}

theorem resendNodes_bitsN (e : Env) (ch : Nat) (nodes : List OutNode) : ∀ c : Conn, AllOKP (BitsN G) c → (∀ n ∈ nodes, G n.bits) →
    AllOKP (BitsN G) (c.resendNodes e ch nodes) := by
  induction nodes with
  | nil => intro c h _; exact h
  | cons n rest ih =>
    intro c h hn
    unfold Conn.resendNodes
    dsimp only
    have w1 : AllOKP (BitsN G) (c.writeBits e n.bits).1 := h.of_chans (writeBits_chans e c n.bits)
    refine ih _ ?_ (fun m hm => hn m (List.mem_cons_of_mem _ hm))
    split
    · exact w1
    · rename_i x hx
      refine setChan_allOKP _ ch _ w1 ?_
      intro m hm
      have hxo := getChan_okP _ ch x w1 hx
      simp only [List.mem_append, List.mem_singleton] at hm
      rcases hm with hm | rfl
      · exact hxo m hm
      · exact hn n List.mem_cons_self

theorem onNakChans_bitsN (e : Env) (pid : Int) (chs : List Nat) : ∀ c : Conn, AllOKP (BitsN G) c → AllOKP (BitsN G) (c.onNakChans e pid chs) := by
  induction chs with
  | nil => intro c h; exact h
  | cons ch rest ih =>
    intro c h
    unfold Conn.onNakChans
    split
    · exact ih c h
    · rename_i x hx
      dsimp only
      have hxo := getChan_okP c ch x h hx
      obtain ⟨s1, s2⟩ := removeOutgoing_subset pid x.outRec
      have h1 : AllOKP (BitsN G) (c.setChan ch { x with outRec := (removeOutgoing pid x.outRec).2 }) :=
        setChan_allOKP c ch _ h (fun n hn => hxo n (s2 n hn))
      exact ih _ (resendNodes_bitsN e ch (removeOutgoing pid x.outRec).1 _ h1 (fun n hn => hxo n (s1 n hn)))

theorem foldl_emit_okP {α} {N : OutNode → Prop} (ev : Event) (l : List α) : ∀ c : Conn, AllOKP N c → AllOKP N (l.foldl (fun c _ => c.emit ev) c) := by
  induction l with
  | nil => intro c h; exact h
  | cons _ rest ih => intro c h; exact ih _ (h.of_chans rfl)

theorem onAckChans_okP {N : OutNode → Prop} (pid : Int) (chs : List Nat) : ∀ c : Conn, AllOKP N c → AllOKP N (c.onAckChans pid chs) := by
  induction chs with
  | nil => intro c h; exact h
  | cons ch rest ih =>
    intro c h
    unfold Conn.onAckChans
    split
    · exact ih c h
    · rename_i x hx
      dsimp only
      have hxo := getChan_okP c ch x h hx
      obtain ⟨_, s2⟩ := removeOutgoing_subset pid x.outRec
      have h1 : AllOKP N (c.setChan ch { x with outRec := (removeOutgoing pid x.outRec).2 }) :=
        setChan_allOKP c ch _ h (fun n hn => hxo n (s2 n hn))
      exact ih _ (foldl_emit_okP _ _ _ h1)

theorem handleNotification_bitsN (e : Env) (c : Conn) (v : Int × Bool) (h : AllOKP (BitsN G) c) : AllOKP (BitsN G) (c.handleNotification e v) := by
  unfold Conn.handleNotification
  dsimp only
  have h0 : AllOKP (BitsN G) { c with lastNotified := c.lastNotified + 1 } := h.of_chans rfl
  split
  · exact h0
  · split
    · have h1 : AllOKP (BitsN G) { c with lastNotified := c.lastNotified + 1, outAckPacketId := c.lastNotified + 1 } := h.of_chans rfl
      exact (onAckChans_okP (c.lastNotified + 1) (c.chans.map (·.1)) _ h1).of_chans rfl
    · exact (onNakChans_bitsN e (c.lastNotified + 1) (c.chans.map (·.1)) _ h0).of_chans rfl

theorem notifyUpdate_bitsN (e : Env) (c : Conn) (hd : NotifHeader) (h : AllOKP (BitsN G) c) : AllOKP (BitsN G) (c.notifyUpdate e hd) := by
  obtain ⟨h1, _⟩ := notifyUpdate_core e c hd
  refine AllOKP.of_chans ?_ h1
  unfold notifyCore
  have hfold : ∀ (vs : List (Int × Bool)) (c : Conn), AllOKP (BitsN G) c → AllOKP (BitsN G) (vs.foldl (Conn.handleNotification e) c) := by
    intro vs
    induction vs with
    | nil => intro c h; exact h
    | cons v rest ih => intro c h; exact ih _ (handleNotification_bitsN e c v h)
  split
  · exact hfold _ _ (h.of_chans rfl)
  · exact h

theorem receivedPacket_bitsN (e : Env) (c : Conn) (bits : Bits) (h : AllOKP (BitsN G) c) : AllOKP (BitsN G) (c.receivedPacket e bits).1 := by
  unfold Conn.receivedPacket
  split
  · exact h.of_chans (markClose_chans _ _)
  · rename_i hd rest hdec
    dsimp only
    split
    · exact h
    · have h0 : AllOKP (BitsN G) ({ c with inPacketId := c.inPacketId + c.notify.deltaSeq hd } : Conn) := h.of_chans rfl
      have n1 := notifyUpdate_bitsN e _ hd h0
      generalize ({ c with inPacketId := c.inPacketId + c.notify.deltaSeq hd } : Conn).notifyUpdate e hd = c2 at n1 ⊢
      have ha := bunchLoop_allOKP (N := BitsN G) (rest.length + 1) c2 rest false n1
      generalize Conn.bunchLoop (rest.length + 1) c2 rest false = r at ha ⊢
      obtain ⟨c3, rest', skip⟩ := r
      exact ha.of_chans rfl

theorem update_okP {N : OutNode → Prop} (e : Env) (c : Conn) (h : AllOKP N c) : AllOKP N (c.checkTimeout e).updateTail.1 := by
  have h1 : AllOKP N (c.checkTimeout e) := by
    unfold Conn.checkTimeout
    split
    · exact h.of_chans (markClose_chans _ _)
    · exact h
  have hd : ∀ c : Conn, AllOKP N c → AllOKP N c.delayClose := by
    intro c h
    unfold Conn.delayClose
    split
    · exact h
    · dsimp only
      have hgen : ∀ (f : Conn → Nat × Channel → Conn), (∀ c p, AllOKP N c → AllOKP N (f c p)) → ∀ (l : List (Nat × Channel)) (c' : Conn), AllOKP N c' → AllOKP N (l.foldl f c') := by
        intro f hf l
        induction l with
        | nil => intro c' h'; exact h'
        | cons p rest ih => intro c' h'; exact ih _ (hf c' p h')
      refine hgen _ ?_ _ _ (h.of_chans rfl)
      intro c' p h'
      split
      · exact h'
      · split
        · exact h'.of_chans rfl
        · intro q hq
          exact h' q (List.mem_filter.mp hq).1
  unfold Conn.updateTail
  dsimp only
  split
  · exact hd _ h1
  · exact (hd _ h1).of_chans rfl

/-- the encoding of a well-formed reliable bunch -/
def RelEnc (bits : Bits) : Prop := ∃ b, WFBunch b ∧ b.bReliable = true ∧ bits = encB b

theorem sendBunch_relenc (e : Env) (c : Conn) (b : Bunch) (h : AllOKP (BitsN RelEnc) c) : AllOKP (BitsN RelEnc) (c.sendBunch e b).1 := by
  have hraw : AllOKP (BitsN RelEnc) (c.sendRaw e b).1 := by
    unfold Conn.sendRaw
    cases hchk : c.sendCheck b with
    | inl err => exact h
    | inr h0 =>
      simp only
      obtain ⟨hfit, hchi, henc⟩ := Props.C14.accepted_fits c b h0 hchk
      unfold Conn.sendCommit
      dsimp only
      have h1 : AllOKP (BitsN RelEnc) ((c.getOrCreateChan b false).1.noteClose b) := noteClose_allOKP _ b (getOrCreateChan_allOKP c b false h).1
      generalize (c.getOrCreateChan b false).1.noteClose b = c1 at h1 ⊢
      split
      · exact h1
      · rename_i x hx
        have hxo := getChan_okP c1 _ x h1 hx
        generalize (if b.bReliable = true then x.outReliable + 1 else 0 : Int) = seq
        have h2 : AllOKP (BitsN RelEnc) (if b.bReliable = true then c1.setChan b.chIndex { x with outReliable := seq } else c1) := by
          split
          · exact setChan_allOKP c1 _ _ h1 hxo
          · exact h1
        generalize (if b.bReliable = true then c1.setChan b.chIndex { x with outReliable := seq } else c1) = c2 at h2 ⊢
        split
        · rename_i hr
          simp only [if_pos hr]
          obtain ⟨⟨hh, hhe⟩, hcr⟩ := header_some_of_zero b seq h0 henc
          rw [hhe]; simp only [Option.getD_some]
          have w1 : AllOKP (BitsN RelEnc) (((c2.prepareWrite e (hh.length + b.data.length)).writeInternal e (hh ++ b.data)).1.emit (.alloc .node)) :=
            ((h2.of_chans (prepareWrite_chans e c2 _)).of_chans (writeInternal_chans e _ _)).of_chans rfl
          unfold Conn.addOutRec
          split
          · exact w1
          · rename_i x4 hx4
            refine setChan_allOKP _ _ _ w1 ?_
            intro n hn
            simp only [List.mem_append, List.mem_singleton] at hn
            rcases hn with hn | rfl
            · exact getChan_okP _ _ x4 w1 hx4 n hn
            · refine ⟨nrm { b with chSeq := seq }, wf_nrm _ hcr (by show b.chIndex < 65536; omega) (by show b.data.length < 8192; omega), hr, ?_⟩
              show hh ++ b.data = encB (nrm { b with chSeq := seq })
              rw [encB_nrm]
              unfold encB encodeBunch
              rw [hhe]; rfl
        · rename_i hr
          simp only [if_neg hr]
          exact (h2.of_chans (prepareWrite_chans e c2 _)).of_chans (writeInternal_chans e _ _)
  unfold Conn.sendBunch
  generalize c.sendRaw e b = r at hraw ⊢
  obtain ⟨c', rr⟩ := r
  simp only at hraw ⊢
  split <;> exact hraw

end Utcp
