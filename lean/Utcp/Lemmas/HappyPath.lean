import Utcp.Props.C18_Parse
import Utcp.Props.C02
import Utcp.Props.C01_Link
/-! helper lemmas for `Props/C01_Happy.lean`: the sender's and the receiver's half of one clean exchange -/
namespace Utcp.Props.C01Happy
open Utcp Utcp.Gen Utcp.Props Utcp.Props.C18Parse

theorem dispatchAll_nil (c : Conn) (ch : Nat) (y : Channel) (h : c.getChan ch = some y) (hq : y.inRec = []) : c.dispatchAll ch = c := by
  unfold Conn.dispatchAll
  simp only [h, hq, List.length_nil, Conn.dispatchWaiting]

/-- `ReceivedNextBunch` for a single (non-partial) bunch that does not close its channel -/
theorem receivedNextBunch_single (c : Conn) (b : Bunch) (x : Channel) (hx : c.getChan b.chIndex = some x) (hrel : b.bReliable = true)
    (hnp : b.bPartial = false) (hcl : b.bClose = false) :
    c.receivedNextBunch b = ((((c.setChan b.chIndex { x with inReliable := b.chSeq }).emit (.recv [b])).emit (.free .node)), false) := by
  unfold Conn.receivedNextBunch
  simp only [hx, hrel, if_true, hnp, Bool.false_eq_true, if_false]
  unfold Conn.noteClose
  simp only [hcl, Bool.not_false, if_true]

/-- receiver side: a reliable, non-partial bunch that is the next one of an existing channel with nothing queued is handed to the
application at once, numbered as expected, and the channel's counter advances -/
theorem next_bunch_delivered (c : Conn) (w : Bunch) (x : Channel) (hx : c.getChan w.chIndex = some x) (hrel : w.bReliable = true)
    (hnp : w.bPartial = false) (hcl : w.bClose = false) (hq : x.inRec = []) (hwire : w.chSeq = (x.inReliable + 1) % 1024) :
    handleBunch c w =
      (((((c.emit (.alloc .node)).setChan w.chIndex { x with inReliable := x.inReliable + 1 }).emit
          (.recv [{ w with packetId := c.inPacketId, chSeq := x.inReliable + 1 }])).emit (.free .node)), false) := by
  unfold handleBunch
  have hg : ((c.emit (.alloc .node)).getOrCreateChan { w with packetId := (c.emit (.alloc .node)).inPacketId } true)
      = (c.emit (.alloc .node), some x) := by
    unfold Conn.getOrCreateChan
    have : (c.emit (.alloc .node)).getChan w.chIndex = some x := hx
    simp only [this]
  simp only [hg]
  have habs : absSeq (c.emit (.alloc .node)) x { w with packetId := (c.emit (.alloc .node)).inPacketId }
      = { w with packetId := c.inPacketId, chSeq := x.inReliable + 1 } := by
    unfold absSeq
    simp only [hrel, if_true, hwire]
    rw [C13.makeRelative_recovers (x.inReliable + 1) x.inReliable (by omega)]
    rfl
  rw [habs]
  have hproc : (c.emit (.alloc .node)).processBunch x { w with packetId := c.inPacketId, chSeq := x.inReliable + 1 }
      = (c.emit (.alloc .node)).receivedNextBunch { w with packetId := c.inPacketId, chSeq := x.inReliable + 1 } := by
    unfold Conn.processBunch
    have h1 : ¬ (x.inReliable + 1 ≤ x.inReliable) := by omega
    have hr : ({ w with packetId := c.inPacketId, chSeq := x.inReliable + 1 } : Bunch).bReliable = true := hrel
    simp only [hr, Bool.true_and, h1, decide_false, Bool.false_eq_true, if_false, bne_self_eq_false, Bool.and_false]
  rw [hproc, receivedNextBunch_single (c.emit (.alloc .node)) { w with packetId := c.inPacketId, chSeq := x.inReliable + 1 } x hx hrel hnp hcl]
  simp only
  have hgc : ((((c.emit (.alloc .node)).setChan w.chIndex { x with inReliable := x.inReliable + 1 }).emit
      (.recv [{ w with packetId := c.inPacketId, chSeq := x.inReliable + 1 }])).emit (.free .node)).getChan w.chIndex
      = some { x with inReliable := x.inReliable + 1 } := getChan_setChan_self _ _ _
  rw [dispatchAll_nil _ w.chIndex { x with inReliable := x.inReliable + 1 } hgc hq]

/-- sender side: a reliable bunch accepted on an existing channel while the send buffer is empty starts a packet, is numbered, written
and recorded; the next flush emits exactly: outgoing header, the packet header of the moment, the bunch's encoding, the terminators -/
theorem send_then_flush (e e' : Env) (c : Conn) (b : Bunch) (h0 : Bits) (x : Channel)
    (hchk : c.sendCheck b = .inr h0) (hx : c.getChan b.chIndex = some x) (hrel : b.bReliable = true) (hcl : b.bClose = false)
    (hidle : c.sendActive = false) (hconn : c.connected = true) (hm : e.magicBits ≤ 32) (hh : c.notify.hist.length = 256) :
    ∃ hdr, encodeBunchHeader { b with chSeq := x.outReliable + 1 } = some hdr ∧
      ((c.sendBunch e b).1.flush e').log =
        .out (bitsToBytes (outgoingHeader e' c.lastSessionId c.lastClientId false ++ encodeNotifHeader (c.notify.headerWith c.notify.curWords)
              ++ (hdr ++ b.data) ++ [true, true])) :: .alloc .node :: c.log := by
  obtain ⟨hfit, hchi, henc⟩ := C14.accepted_fits c b h0 hchk
  obtain ⟨⟨hdr, hhe⟩, _⟩ := header_some_of_zero b (x.outReliable + 1) h0 henc
  refine ⟨hdr, hhe, ?_⟩
  have hlen : hdr.length = h0.length := by
    exact encodeBunchHeader_length_seq b (x.outReliable + 1) h0 hdr henc hhe
  rw [C01Link.sendBunch_accepted e c b h0 hchk]
  unfold Conn.sendCommit
  have hg : c.getOrCreateChan b false = (c, some x) := by unfold Conn.getOrCreateChan; simp only [hx]
  have hn : c.noteClose b = c := by unfold Conn.noteClose; simp only [hcl, Bool.not_false, if_true]
  simp only [hg, hn, hx, if_pos hrel, hhe, Option.getD_some]
  -- no flush before the write: the buffer is empty
  have hr := Size.curWords_range c.notify
  have hfree0 : (c.setChan b.chIndex { x with outReliable := x.outReliable + 1 }).freeBits e = 7883 := by
    unfold Conn.freeBits Conn.sendBitsNum
    have : (c.setChan b.chIndex { x with outReliable := x.outReliable + 1 }).sendActive = false := hidle
    simp only [this, Bool.false_eq_true, if_false]
    decide
  have hprep : (c.setChan b.chIndex { x with outReliable := x.outReliable + 1 }).prepareWrite e (hdr.length + b.data.length)
      = (c.setChan b.chIndex { x with outReliable := x.outReliable + 1 }).startPacket := by
    unfold Conn.prepareWrite
    have hle : ¬ (((hdr.length + b.data.length : Nat) : Int) > 7883) := by omega
    simp only [hfree0, hle, decide_false, Bool.false_eq_true, if_false]
    have : (c.setChan b.chIndex { x with outReliable := x.outReliable + 1 }).sendActive = false := hidle
    simp only [this, Bool.not_false, if_true]
  rw [hprep]
  -- the write does not fill the packet either
  have hnl : (encodeNotifHeader (c.notify.headerWith c.notify.curWords)).length ≤ 289 := by
    rw [Size.encodeNotifHeader_length, Size.headerWith_hist_length _ _ hh hr.2]; omega
  have hwrite : ((c.setChan b.chIndex { x with outReliable := x.outReliable + 1 }).startPacket.writeInternal e (hdr ++ b.data))
      = ({ (c.setChan b.chIndex { x with outReliable := x.outReliable + 1 }).startPacket with sendBody := hdr ++ b.data }, c.outPacketId) := by
    unfold Conn.writeInternal
    have hfree : ({ (c.setChan b.chIndex { x with outReliable := x.outReliable + 1 }).startPacket with
        sendBody := (c.setChan b.chIndex { x with outReliable := x.outReliable + 1 }).startPacket.sendBody ++ (hdr ++ b.data) } : Conn).freeBits e ≠ 0 := by
      unfold Conn.freeBits Conn.sendBitsNum Conn.startPacket Env.outHdrLen GetFreeSendBufferBits
      simp only [if_true, List.nil_append, List.length_append]
      have h1 : (encodeNotifHeader (c.setChan b.chIndex { x with outReliable := x.outReliable + 1 }).notify.fillFresh.2).length ≤ 289 := hnl
      generalize (encodeNotifHeader (c.setChan b.chIndex { x with outReliable := x.outReliable + 1 }).notify.fillFresh.2).length = nl at h1
      have hpos : decide ((((e.magicBits + 2 + 3 + 1 + nl + (hdr.length + b.data.length) : Nat) : Int)) > 0) = true := by
        simp only [decide_eq_true_eq]; omega
      simp only [hpos, if_true]
      omega
    have hne : (({ (c.setChan b.chIndex { x with outReliable := x.outReliable + 1 }).startPacket with
        sendBody := (c.setChan b.chIndex { x with outReliable := x.outReliable + 1 }).startPacket.sendBody ++ (hdr ++ b.data) } : Conn).freeBits e == 0) = false := by
      simpa using hfree
    simp only [hne, Bool.false_eq_true, if_false]
    rfl
  rw [hwrite]
  simp only
  -- the record is appended, then the flush emits the packet
  unfold Conn.addOutRec
  have hgc : (({ (c.setChan b.chIndex { x with outReliable := x.outReliable + 1 }).startPacket with sendBody := hdr ++ b.data } : Conn).emit (.alloc .node)).getChan b.chIndex
      = some { x with outReliable := x.outReliable + 1 } := getChan_setChan_self c b.chIndex _
  simp only [hgc]
  unfold Conn.flush Conn.flushDue
  have hconn' : (((({ (c.setChan b.chIndex { x with outReliable := x.outReliable + 1 }).startPacket with sendBody := hdr ++ b.data } : Conn).emit (.alloc .node)).setChan b.chIndex
      { x with outReliable := x.outReliable + 1, outRec := x.outRec ++ [{ packetId := c.outPacketId, bits := hdr ++ b.data }] }).connected) = true := hconn
  simp only [hconn', Conn.startPacket, Conn.emit, Conn.setChan, Bool.true_and, Bool.true_or, Bool.not_true, Bool.false_eq_true, if_false, if_true]
  unfold Conn.flushNow Conn.packetBits Conn.finalHeader Notify.fillRefresh Notify.fillFresh
  have hcw : ({ c.notify with writtenWords := c.notify.curWords, writtenInAckSeq := c.notify.inAckSeq } : Notify).curWords = c.notify.curWords := rfl
  simp only [hcw, Nat.lt_irrefl, gt_iff_lt, if_false, hconn, Bool.and_self, Bool.not_true, Bool.false_eq_true]
  rfl

end Utcp.Props.C01Happy
