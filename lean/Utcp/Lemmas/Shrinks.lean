import Utcp.Bunch
import Utcp.Lemmas.BitIO
/-! Readers never produce bits: whatever a reader returns (success or failure), the remainder is no longer than
the input — the cursor stays inside the buffer — and a bunch read on a non-empty input consumes at least one bit. -/
namespace Utcp

def RR.rest {α} : RR α → Bits
  | .ok _ r => r
  | .fail r => r

def Shrinks {α} (m : Rd α) : Prop := ∀ bs, (m bs).rest.length ≤ bs.length

theorem Shrinks.pure {α} (a : α) : Shrinks (Pure.pure a : Rd α) := fun bs => by simp [RR.rest]

theorem Shrinks.bind {α β} {m : Rd α} {f : α → Rd β} (hm : Shrinks m) (hf : ∀ a, Shrinks (f a)) : Shrinks (m >>= f) := by
  intro bs
  have h1 := hm bs
  simp only [Rd.bind_apply]
  cases h : m bs with
  | ok v r => simp only [h, RR.rest] at h1 ⊢; exact Nat.le_trans (hf v r) h1
  | fail r => simp only [h, RR.rest] at h1 ⊢; exact h1

theorem Shrinks.ite {α} (c : Bool) {a b : Rd α} (ha : Shrinks a) (hb : Shrinks b) : Shrinks (if c then a else b) := by
  cases c <;> simp [ha, hb]

theorem readBit_shrinks : Shrinks readBit := by
  intro bs; cases bs <;> simp [readBit, RR.rest]

theorem readBits_shrinks (n : Nat) : Shrinks (readBits n) := by
  intro bs; unfold readBits; split <;> simp [RR.rest]

theorem rIntLoop_shrinks (fuel mx : Nat) (start : Bits) : ∀ mask nv bs, bs.length ≤ start.length → (rIntLoop fuel mx mask nv start bs).rest.length ≤ start.length := by
  induction fuel with
  | zero => intro mask nv bs h; simpa [rIntLoop, RR.rest] using h
  | succ f ih =>
    intro mask nv bs h
    unfold rIntLoop
    split
    · cases bs with
      | nil => simp [RR.rest]
      | cons b t => exact ih _ _ t (by simp at h; omega)
    · simpa [RR.rest] using h

theorem readInt_shrinks (mx : Nat) : Shrinks (readInt mx) := fun bs => rIntLoop_shrinks 33 mx bs 1 0 bs (Nat.le_refl _)

theorem rPackedLoop_shrinks (fuel : Nat) : ∀ shift acc, Shrinks (rPackedLoop fuel shift acc) := by
  induction fuel with
  | zero => intro s a bs; simp [rPackedLoop, RR.rest]
  | succ f ih =>
    intro s a bs
    unfold rPackedLoop
    have h8 := readBits_shrinks 8 bs
    cases h : readBits 8 bs with
    | fail r => rw [h] at h8; simpa [RR.rest] using h8
    | ok byte rest =>
      rw [h] at h8
      simp only [RR.rest] at h8
      simp only
      split
      · exact Nat.le_trans (ih _ _ rest) h8
      · simpa [RR.rest] using h8

theorem readIntPacked_shrinks : Shrinks readIntPacked := rPackedLoop_shrinks 5 0 0

theorem failHere_shrinks {α} : Shrinks (Rd.failHere : Rd α) := fun bs => by simp [Rd.failHere, RR.rest]

theorem readCtl_shrinks : Shrinks readCtl := by
  unfold readCtl
  refine Shrinks.bind readBit_shrinks fun ctl => ?_
  refine Shrinks.bind (Shrinks.ite ctl readBit_shrinks (Shrinks.pure _)) fun o => ?_
  refine Shrinks.bind (Shrinks.ite ctl readBit_shrinks (Shrinks.pure _)) fun c => ?_
  refine Shrinks.bind (Shrinks.ite c (readInt_shrinks _) (Shrinks.pure _)) fun r => Shrinks.pure _

theorem readSeq_shrinks (r : Bool) : Shrinks (readSeq r) := by
  unfold readSeq; exact Shrinks.ite r (readInt_shrinks _) (Shrinks.pure _)

theorem readPartialFlags_shrinks (p : Bool) : Shrinks (readPartialFlags p) := by
  unfold readPartialFlags
  exact Shrinks.ite p (Shrinks.bind readBit_shrinks fun _ => Shrinks.bind readBit_shrinks fun _ => Shrinks.pure _) (Shrinks.pure _)

theorem readName_shrinks (h : Bool) : Shrinks (readName h) := by
  unfold readName
  refine Shrinks.ite h (Shrinks.bind readBit_shrinks fun hard => ?_) (Shrinks.pure _)
  exact Shrinks.ite (!hard) failHere_shrinks readIntPacked_shrinks

/-- the continuation of `decodeBunch` after the control stage -/
def decodeAfterCtl (x : Bool × Bool × Nat) : Rd Bunch := do
  let paused ← readBit
  let reliable ← readBit
  let ch ← readIntPacked
  let exports ← readBit
  let guids ← readBit
  let partial_ ← readBit
  let chSeq ← readSeq reliable
  let (pinit, pfinal) ← readPartialFlags partial_
  let name ← readName (reliable || x.1)
  let nbits ← readInt maxPacketBits
  let data ← readBits nbits
  pure { chIndex := ch % 65536, bOpen := x.1, bClose := x.2.1, bPaused := paused, bReliable := reliable,
         bExports := exports, bGuids := guids, bPartial := partial_, bPartialInitial := pinit,
         bPartialFinal := pfinal, closeReason := x.2.2, nameIndex := name, chSeq := chSeq, packetId := 0,
         data := data }

theorem decodeBunch_eq : decodeBunch = (readCtl >>= decodeAfterCtl) := by
  unfold decodeBunch decodeAfterCtl
  rfl

theorem decodeAfterCtl_shrinks (x : Bool × Bool × Nat) : Shrinks (decodeAfterCtl x) := by
  unfold decodeAfterCtl
  refine Shrinks.bind readBit_shrinks fun _ => ?_
  refine Shrinks.bind readBit_shrinks fun rel => ?_
  refine Shrinks.bind readIntPacked_shrinks fun _ => ?_
  refine Shrinks.bind readBit_shrinks fun _ => ?_
  refine Shrinks.bind readBit_shrinks fun _ => ?_
  refine Shrinks.bind readBit_shrinks fun p => ?_
  refine Shrinks.bind (readSeq_shrinks rel) fun _ => ?_
  refine Shrinks.bind (readPartialFlags_shrinks p) fun pf => ?_
  refine Shrinks.bind (readName_shrinks _) fun _ => ?_
  refine Shrinks.bind (readInt_shrinks _) fun n => ?_
  refine Shrinks.bind (readBits_shrinks n) fun _ => Shrinks.pure _

theorem decodeBunch_shrinks : Shrinks decodeBunch := by
  rw [decodeBunch_eq]; exact Shrinks.bind readCtl_shrinks decodeAfterCtl_shrinks

/-- **progress**: on a non-empty input a bunch read consumes at least one bit, whether it succeeds or fails -/
theorem decodeBunch_progress (b : Bool) (bs : Bits) : (decodeBunch (b :: bs)).rest.length < (b :: bs).length := by
  rw [decodeBunch_eq]
  simp only [Rd.bind_apply]
  -- readCtl on a non-empty input: its first read (one bit) succeeds, so its remainder is strictly shorter
  have hctl : (readCtl (b :: bs)).rest.length ≤ bs.length := by
    unfold readCtl
    simp only [Rd.bind_apply, readBit_cons]
    exact (Shrinks.bind (Shrinks.ite b readBit_shrinks (Shrinks.pure false)) fun o =>
      Shrinks.bind (Shrinks.ite b readBit_shrinks (Shrinks.pure false)) fun c =>
      Shrinks.bind (Shrinks.ite c (readInt_shrinks closeReasonMax) (Shrinks.pure 0)) fun r => (Shrinks.pure (o, c, r))) bs
  cases h : readCtl (b :: bs) with
  | ok v r =>
    simp only [h, RR.rest] at hctl ⊢
    have := decodeAfterCtl_shrinks v r
    simp only [List.length_cons]
    exact Nat.lt_succ_of_le (Nat.le_trans this hctl)
  | fail r =>
    simp only [h, RR.rest] at hctl ⊢
    simp only [List.length_cons]; omega

end Utcp
