import Utcp.Basic
/-! Byte framing: `bitsToBytes` / `bytesToBits` / the terminator bit that `bitbuf_read_init` strips. -/
namespace Utcp

theorem bitsToBytes_nil : bitsToBytes [] = [] := by
  unfold bitsToBytes; simp

theorem bitsToBytes_cons (b : Bool) (l : Bits) :
    bitsToBytes (b :: l) = UInt8.ofNat (bitsToNat ((b :: l).take 8)) :: bitsToBytes ((b :: l).drop 8) := by
  rw [bitsToBytes]; simp

theorem bitsToBytes_ne_nil (l : Bits) (h : l ≠ []) :
    bitsToBytes l = UInt8.ofNat (bitsToNat (l.take 8)) :: bitsToBytes (l.drop 8) := by
  cases l with
  | nil => exact absurd rfl h
  | cons b t => exact bitsToBytes_cons b t

theorem natToBits_bitsToNat_pad (t : Bits) (k : Nat) : natToBits (bitsToNat t) (t.length + k) = t ++ List.replicate k false := by
  induction t with
  | nil =>
    simp only [bitsToNat, List.length_nil, Nat.zero_add, List.nil_append]
    induction k with
    | zero => rfl
    | succ k ih => simp [natToBits, List.replicate_succ, ih]
  | cons b t ih =>
    have : (b :: t).length + k = (t.length + k) + 1 := by simp; omega
    rw [this, natToBits]
    cases b
    · simp only [bitsToNat, Bool.false_eq_true, if_false, Nat.zero_add, List.cons_append]
      have h1 : 2 * bitsToNat t % 2 = 0 := by omega
      have h2 : 2 * bitsToNat t / 2 = bitsToNat t := by omega
      rw [h1, h2, ih]; rfl
    · simp only [bitsToNat, if_true, List.cons_append]
      have h1 : (1 + 2 * bitsToNat t) % 2 = 1 := by omega
      have h2 : (1 + 2 * bitsToNat t) / 2 = bitsToNat t := by omega
      rw [h1, h2, ih]; rfl

theorem u8_toNat_ofNat (n : Nat) (h : n < 256) : (UInt8.ofNat n).toNat = n := by
  simp [UInt8.toNat_ofNat, Nat.mod_eq_of_lt h]

/-- padding needed to fill the last byte -/
def padLen (n : Nat) : Nat := (8 - n % 8) % 8

theorem bytesToBits_bitsToBytes (l : Bits) : bytesToBits (bitsToBytes l) = l ++ List.replicate (padLen l.length) false := by
  induction hn : l.length using Nat.strongRecOn generalizing l with
  | ind n ih =>
    subst hn
    by_cases hl : l = []
    · subst hl; simp [bitsToBytes_nil, bytesToBits, padLen]
    · rw [bitsToBytes_ne_nil l hl, bytesToBits]
      have hlt : bitsToNat (l.take 8) < 256 := by
        have := bitsToNat_lt (l.take 8)
        have h8 : (l.take 8).length ≤ 8 := by simp; omega
        exact Nat.lt_of_lt_of_le this (Nat.pow_le_pow_right (by decide) h8)
      rw [u8_toNat_ofNat _ hlt]
      by_cases h8 : 8 ≤ l.length
      · have htl : (l.take 8).length = 8 := by simp; omega
        have h1 : natToBits (bitsToNat (l.take 8)) 8 = l.take 8 := by
          have := natToBits_bitsToNat (l.take 8); rw [htl] at this; exact this
        rw [h1, ih (l.drop 8).length (by simp; omega) (l.drop 8) rfl]
        have hp : padLen (l.drop 8).length = padLen l.length := by simp [padLen]; omega
        rw [hp, ← List.append_assoc, List.take_append_drop]
      · have htk : l.take 8 = l := List.take_of_length_le (by omega)
        have hdr : l.drop 8 = [] := List.drop_of_length_le (by omega)
        rw [htk, hdr, bitsToBytes_nil, bytesToBits, List.append_nil]
        have hlen : 8 = l.length + padLen l.length := by
          have : l.length ≠ 0 := by intro h0; exact hl (List.length_eq_zero_iff.mp h0)
          simp [padLen]; omega
        rw [hlen]
        exact natToBits_bitsToNat_pad l _

theorem stripTrailing_replicate_false (k : Nat) : stripTrailing (List.replicate k false) = [] := by
  induction k with
  | zero => rfl
  | succ k ih => simp [List.replicate_succ, stripTrailing, ih]

theorem stripTrailing_terminated (l : Bits) (k : Nat) : stripTrailing (l ++ [true] ++ List.replicate k false) = l ++ [true] := by
  induction l with
  | nil => simp [stripTrailing, stripTrailing_replicate_false]
  | cons b t ih =>
    simp only [List.cons_append, stripTrailing]
    rw [ih]
    cases t <;> simp

theorem bitsToBytes_length (l : Bits) : (bitsToBytes l).length = (l.length + 7) / 8 := by
  induction hn : l.length using Nat.strongRecOn generalizing l with
  | ind n ih =>
    subst hn
    by_cases hl : l = []
    · subst hl; simp [bitsToBytes_nil]
    · rw [bitsToBytes_ne_nil l hl, List.length_cons, ih (l.drop 8).length (by
        have : l.length ≠ 0 := by intro h0; exact hl (List.length_eq_zero_iff.mp h0)
        simp; omega) (l.drop 8) rfl]
      have : l.length ≠ 0 := by intro h0; exact hl (List.length_eq_zero_iff.mp h0)
      simp only [List.length_drop]
      omega

theorem bitsToNat_pos_of_mem (t : Bits) (h : true ∈ t) : 0 < bitsToNat t := by
  induction t with
  | nil => simp at h
  | cons b t ih =>
    simp only [bitsToNat]
    cases b
    · simp at h; have := ih h; simp; omega
    · simp; omega

/-- the last byte of a bit string that ends in a 1 bit is not zero (`C18`: the datagram's terminator) -/
theorem bitsToBytes_last_ne_zero (l : Bits) : ∃ bytes last, bitsToBytes (l ++ [true]) = bytes ++ [last] ∧ last ≠ 0 := by
  induction hn : l.length using Nat.strongRecOn generalizing l with
  | ind n ih =>
    subst hn
    have hne : l ++ [true] ≠ [] := by simp
    rw [bitsToBytes_ne_nil _ hne]
    by_cases h8 : 8 ≤ l.length
    · have hd : (l ++ [true]).drop 8 = l.drop 8 ++ [true] := by
        rw [List.drop_append_of_le_length h8]
      rw [hd]
      obtain ⟨bytes, last, hb, hl⟩ := ih (l.drop 8).length (by simp; omega) (l.drop 8) rfl
      exact ⟨_ :: bytes, last, by rw [hb]; rfl, hl⟩
    · have hd : (l ++ [true]).drop 8 = [] := List.drop_of_length_le (by simp; omega)
      have ht : (l ++ [true]).take 8 = l ++ [true] := List.take_of_length_le (by simp; omega)
      rw [hd, ht, bitsToBytes_nil]
      refine ⟨[], _, rfl, ?_⟩
      have hpos : 0 < bitsToNat (l ++ [true]) := bitsToNat_pos_of_mem _ (by simp)
      have hlt : bitsToNat (l ++ [true]) < 256 := by
        have := bitsToNat_lt (l ++ [true])
        have h8' : (l ++ [true]).length ≤ 8 := by simp; omega
        exact Nat.lt_of_lt_of_le this (Nat.pow_le_pow_right (by decide) h8')
      intro h0
      have := congrArg UInt8.toNat h0
      rw [u8_toNat_ofNat _ hlt] at this
      simp at this
      omega

/-- **framing round trip**: what `bitbuf_read_init` recovers from a datagram is exactly the bits that were
written before the terminator -/
theorem readInit_bitsToBytes (l : Bits) : readInit (bitsToBytes (l ++ [true])) = some l := by
  obtain ⟨bytes, last, hb, hl⟩ := bitsToBytes_last_ne_zero l
  unfold readInit
  rw [hb]
  simp only [List.getLast?_append, List.getLast?_singleton, Option.some_or]
  have : (last == 0) = false := by simp [hl]
  simp only [this, Bool.false_eq_true, if_false]
  rw [← hb, bytesToBits_bitsToBytes, stripTrailing_terminated]
  simp

end Utcp
