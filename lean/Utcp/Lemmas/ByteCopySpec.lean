import Utcp.Lemmas.ByteCopyMain
/-! The short path of the bit-run copier, and the specification of `appBitsCpy` as a whole. -/
namespace Utcp.BB

theorem testBit_254_shl (t j : Nat) : (254 <<< t).testBit j = (decide (t + 1 ≤ j) && decide (j < t + 8)) := by
  have : (254 : Nat) = 127 <<< 1 := by decide
  rw [this, ← Nat.shiftLeft_add, Nat.testBit_shiftLeft]
  have : (127 : Nat) = 2 ^ 7 - 1 := rfl
  rw [this, Nat.testBit_two_pow_sub_one]
  by_cases h : 1 + t ≤ j
  · have h' : t + 1 ≤ j := by omega
    simp [h, h']; omega
  · have h' : ¬ (t + 1 ≤ j) := by omega
    simp [h, h']

/-- the accumulator of the short path holds the `n` source bits, lowest first -/
theorem smallAccu (src : Mem) (hsk : BytesOK src) (S0 s n : Nat) (hs8 : s < 8) (hn1 : 1 ≤ n) (hn8 : n ≤ 8)
    (hsl : 8 * S0 + s + n ≤ 8 * src.length) :
    ∃ accu, (if S0 = (8 * S0 + s + n - 1) / 8 then (rd src S0).bind fun a => some (a >>> s)
      else (rd src S0).bind fun a => (rd src ((8 * S0 + s + n - 1) / 8)).bind fun b => some ((a >>> s) ||| (b <<< (8 - s)))) = some accu ∧
      ∀ i, i < n → accu.testBit i = bit src (8 * S0 + s + i) := by
  have r0 : rd src S0 = some (src.getD S0 0) := rd_of_lt _ _ (by omega)
  by_cases h : S0 = (8 * S0 + s + n - 1) / 8
  · refine ⟨_, by rw [if_pos h, r0]; rfl, ?_⟩
    intro i hi
    rw [Nat.testBit_shiftRight]
    have : 8 * S0 + s + i = 8 * S0 + (s + i) := by omega
    rw [this, bit_at src S0 (s + i) (by omega)]
  · have hl : (8 * S0 + s + n - 1) / 8 = S0 + 1 := by omega
    have r1 : rd src (S0 + 1) = some (src.getD (S0 + 1) 0) := rd_of_lt _ _ (by omega)
    refine ⟨_, by rw [if_neg h, r0, hl, r1]; rfl, ?_⟩
    intro i hi
    rw [Nat.testBit_or, Nat.testBit_shiftRight, Nat.testBit_shiftLeft]
    by_cases h2 : s + i < 8
    · have : 8 * S0 + s + i = 8 * S0 + (s + i) := by omega
      rw [this, bit_at src S0 (s + i) h2]
      have : ¬ (i ≥ 8 - s) := by omega
      simp [this]
    · have e : 8 * S0 + s + i = 8 * (S0 + 1) + (i - (8 - s)) := by omega
      rw [e, bit_at src (S0 + 1) (i - (8 - s)) (by omega), testBit_byte_hi _ _ (getD_lt_256 src hsk S0) (by omega)]
      have : i ≥ 8 - s := by omega
      simp [this]

end Utcp.BB

namespace Utcp.BB

theorem mask_mid (accu x d t j : Nat) (ht : t < 8) :
    (((x &&& not32 ((255 <<< d) &&& not32 (254 <<< t))) ||| ((accu <<< d) &&& ((255 <<< d) &&& not32 (254 <<< t)))) % 256).testBit j =
      (decide (j < 8) && if d ≤ j ∧ j ≤ t then accu.testBit (j - d) else x.testBit j) := by
  rw [testBit_mod256]
  by_cases hj : j < 8
  · rw [Nat.testBit_or, Nat.testBit_and, Nat.testBit_and, testBit_not32 _ _ (by omega), Nat.testBit_and, testBit_not32 _ _ (by omega),
      testBit_255_shl, testBit_254_shl, Nat.testBit_shiftLeft]
    by_cases h : d ≤ j ∧ j ≤ t
    · have a1 : d ≤ j := h.1
      have a2 : j < d + 8 := by omega
      have a3 : ¬ (t + 1 ≤ j) := by omega
      simp [hj, h, a1, a2, a3]
    · rw [if_neg h]
      by_cases h1 : d ≤ j
      · have a3 : t + 1 ≤ j := by omega
        have a4 : j < t + 8 := by omega
        simp [hj, h1, a3, a4]
      · simp [hj, h1]
  · simp [hj]

theorem mask_first (accu x d j : Nat) (hd : d < 8) :
    (((x &&& not32 (255 <<< d)) ||| ((accu <<< d) &&& (255 <<< d))) % 256).testBit j =
      (decide (j < 8) && if d ≤ j then accu.testBit (j - d) else x.testBit j) := by
  rw [testBit_mod256]
  by_cases hj : j < 8
  · rw [Nat.testBit_or, Nat.testBit_and, Nat.testBit_and, testBit_not32 _ _ (by omega), testBit_255_shl, Nat.testBit_shiftLeft]
    by_cases h : d ≤ j
    · have : j < d + 8 := by omega
      simp [hj, h, this]
    · simp [hj, h]
  · simp [hj]

theorem mask_last (accu x d t j : Nat) (ht : t < 8) :
    (((x &&& (254 <<< t)) ||| ((accu >>> (8 - d)) &&& not32 (254 <<< t))) % 256).testBit j =
      (decide (j < 8) && if t + 1 ≤ j then x.testBit j else accu.testBit (8 - d + j)) := by
  rw [testBit_mod256]
  by_cases hj : j < 8
  · rw [Nat.testBit_or, Nat.testBit_and, Nat.testBit_and, testBit_not32 _ _ (by omega), testBit_254_shl, Nat.testBit_shiftRight]
    by_cases h : t + 1 ≤ j
    · have : j < t + 8 := by omega
      simp [hj, h, this]
    · simp [hj, h]
  · simp [hj]

theorem cpySmall_core (dest src : Mem) (hdk : BytesOK dest) (hsk : BytesOK src) (D0 d S0 s n : Nat)
    (hd8 : d < 8) (hs8 : s < 8) (hn1 : 1 ≤ n) (hn8 : n ≤ 8)
    (hdl : 8 * D0 + d + n ≤ 8 * dest.length) (hsl : 8 * S0 + s + n ≤ 8 * src.length) :
    ∃ dest', cpySmall dest (8 * D0 + d) src (8 * S0 + s) n = some dest' ∧ dest'.length = dest.length ∧ BytesOK dest' ∧
      ∀ k, bit dest' k = if 8 * D0 + d ≤ k ∧ k < 8 * D0 + d + n then bit src (8 * S0 + s + (k - (8 * D0 + d))) else bit dest k := by
  have q1 : (8 * D0 + d) / 8 = D0 := by omega
  have q2 : (8 * D0 + d) % 8 = d := by omega
  have q5 : (8 * S0 + s) / 8 = S0 := by omega
  have q6 : (8 * S0 + s) % 8 = s := by omega
  obtain ⟨accu, haccu, hbits⟩ := smallAccu src hsk S0 s n hs8 hn1 hn8 hsl
  have r0 : rd dest D0 = some (dest.getD D0 0) := rd_of_lt _ _ (by omega)
  unfold cpySmall
  simp only [q1, q2, q5, q6]
  rw [haccu]
  simp only [Option.bind_some, r0]
  by_cases h : D0 = (8 * D0 + d + n - 1) / 8
  · have ht : (8 * D0 + d + n - 1) % 8 = d + n - 1 := by omega
    rw [if_pos h, ht]
    generalize hv : ((dest.getD D0 0 &&& not32 ((255 <<< d) &&& not32 (254 <<< (d + n - 1)))) |||
      ((accu <<< d) &&& ((255 <<< d) &&& not32 (254 <<< (d + n - 1))))) = v
    rw [wr_of_lt _ _ _ (by omega)]
    refine ⟨_, rfl, by simp, bytesOK_set dest hdk _ _, ?_⟩
    intro k
    rw [bit_set _ _ _ _ (by omega)]
    by_cases h2 : k / 8 = D0
    · rw [if_pos h2, ← hv, mask_mid _ _ _ _ _ (by omega)]
      have a3 : k % 8 < 8 := by omega
      by_cases h3 : d ≤ k % 8 ∧ k % 8 ≤ d + n - 1
      · have a : 8 * D0 + d ≤ k ∧ k < 8 * D0 + d + n := by omega
        rw [if_pos h3, if_pos a, hbits _ (by omega)]
        have : 8 * S0 + s + (k % 8 - d) = 8 * S0 + s + (k - (8 * D0 + d)) := by omega
        simp [a3, this]
      · have a : ¬ (8 * D0 + d ≤ k ∧ k < 8 * D0 + d + n) := by omega
        rw [if_neg h3, if_neg a]
        have : bit dest k = (dest.getD D0 0).testBit (k % 8) := by unfold bit; rw [h2]
        simp [a3, this]
    · have a : ¬ (8 * D0 + d ≤ k ∧ k < 8 * D0 + d + n) := by omega
      rw [if_neg h2, if_neg a]
  · have hl : (8 * D0 + d + n - 1) / 8 = D0 + 1 := by omega
    have ht : (8 * D0 + d + n - 1) % 8 = d + n - 9 := by omega
    rw [if_neg h, hl, ht]
    generalize hv0 : ((dest.getD D0 0 &&& not32 (255 <<< d)) ||| ((accu <<< d) &&& (255 <<< d))) = v0
    rw [wr_of_lt _ _ _ (by omega)]
    simp only [Option.bind_some]
    have r1 : rd (dest.set D0 (v0 % 256)) (D0 + 1) = some ((dest.set D0 (v0 % 256)).getD (D0 + 1) 0) := rd_of_lt _ _ (by simp; omega)
    rw [r1]
    simp only [Option.bind_some]
    generalize hv1 : (((dest.set D0 (v0 % 256)).getD (D0 + 1) 0 &&& (254 <<< (d + n - 9))) ||| ((accu >>> (8 - d)) &&& not32 (254 <<< (d + n - 9)))) = v1
    rw [wr_of_lt _ _ _ (by simp; omega)]
    refine ⟨_, rfl, by simp, bytesOK_set _ (bytesOK_set dest hdk _ _) _ _, ?_⟩
    intro k
    rw [bit_set _ _ _ _ (by simp; omega)]
    by_cases h2 : k / 8 = D0 + 1
    · rw [if_pos h2, ← hv1, mask_last _ _ _ _ _ (by omega)]
      have a3 : k % 8 < 8 := by omega
      by_cases h3 : d + n - 9 + 1 ≤ k % 8
      · have a : ¬ (8 * D0 + d ≤ k ∧ k < 8 * D0 + d + n) := by omega
        rw [if_pos h3, if_neg a]
        have e1 : ((dest.set D0 (v0 % 256)).getD (D0 + 1) 0).testBit (k % 8) = bit (dest.set D0 (v0 % 256)) k := by unfold bit; rw [h2]
        rw [e1, bit_set _ _ _ _ (by omega)]
        have : ¬ (k / 8 = D0) := by omega
        rw [if_neg this]
        simp [a3]
      · have a : 8 * D0 + d ≤ k ∧ k < 8 * D0 + d + n := by omega
        rw [if_neg h3, if_pos a, hbits _ (by omega)]
        have : 8 * S0 + s + (8 - d + k % 8) = 8 * S0 + s + (k - (8 * D0 + d)) := by omega
        simp [a3, this]
    · rw [if_neg h2, bit_set _ _ _ _ (by omega)]
      by_cases h4 : k / 8 = D0
      · rw [if_pos h4, ← hv0, mask_first _ _ _ _ hd8]
        have a3 : k % 8 < 8 := by omega
        by_cases h3 : d ≤ k % 8
        · have a : 8 * D0 + d ≤ k ∧ k < 8 * D0 + d + n := by omega
          rw [if_pos h3, if_pos a, hbits _ (by omega)]
          have : 8 * S0 + s + (k % 8 - d) = 8 * S0 + s + (k - (8 * D0 + d)) := by omega
          simp [a3, this]
        · have a : ¬ (8 * D0 + d ≤ k ∧ k < 8 * D0 + d + n) := by omega
          rw [if_neg h3, if_neg a]
          have : bit dest k = (dest.getD D0 0).testBit (k % 8) := by unfold bit; rw [h4]
          simp [a3, this]
      · have a : ¬ (8 * D0 + d ≤ k ∧ k < 8 * D0 + d + n) := by omega
        rw [if_neg h4, if_neg a]

/-- **the bit-run copier** (`appBitsCpy`), every destination offset, source offset and count: on arrays that hold just the bytes the
two bit ranges occupy it faults on no access, changes no length, keeps bytes bytes, and the destination afterwards is the old destination
with bits `[db, db+n)` replaced by source bits `[sb, sb+n)` - every other bit, in particular every byte outside the range, is as before -/
theorem appBitsCpy_spec (dest src : Mem) (hdk : BytesOK dest) (hsk : BytesOK src) (db sb n : Nat)
    (hdl : db + n ≤ 8 * dest.length) (hsl : sb + n ≤ 8 * src.length) :
    ∃ dest', appBitsCpy dest db src sb n = some dest' ∧ dest'.length = dest.length ∧ BytesOK dest' ∧
      ∀ k, bit dest' k = if db ≤ k ∧ k < db + n then bit src (sb + (k - db)) else bit dest k := by
  have hdb : db = 8 * (db / 8) + db % 8 := by omega
  have hsb : sb = 8 * (sb / 8) + sb % 8 := by omega
  unfold appBitsCpy
  by_cases h0 : n = 0
  · subst h0
    refine ⟨dest, by simp, rfl, hdk, ?_⟩
    intro k
    have : ¬ (db ≤ k ∧ k < db + 0) := by omega
    rw [if_neg this]
  · rw [if_neg h0]
    by_cases h8 : n ≤ 8
    · rw [if_pos h8]
      have := cpySmall_core dest src hdk hsk (db / 8) (db % 8) (sb / 8) (sb % 8) n (by omega) (by omega) (by omega) h8 (by omega) (by omega)
      rw [← hdb, ← hsb] at this
      exact this
    · rw [if_neg h8]
      have := cpyMain_core dest src hdk hsk (db / 8) (db % 8) (sb / 8) (sb % 8) n ((db % 8 + n) / 8) ((db % 8 + n) % 8)
        (by omega) (by omega) (by omega) (by omega) (by omega) (by omega) (by omega)
      rw [← hdb, ← hsb] at this
      exact this

end Utcp.BB
