import Utcp.Lemmas.Size
import Utcp.Lemmas.Keeps
import Utcp.Lemmas.RecvKeeps
import Utcp.Props.C14
import Utcp.Props.C11
import Utcp.Lemmas.RecvAdds
/-!
# The send-buffer invariant

`SInv e c`: the send buffer of a connected endpoint never holds more than 8191 bits, the header placeholder has the
size of the history words reserved for it, and every retransmission record fits into an empty packet.  It is
established by `utcp_sequence_init` on a fresh connection and preserved by every operation of the data path
(`Props/C18.lean` states that); every datagram emitted on the way has at most 1025 bytes.
-/
namespace Utcp
open Gen Size

/-- a property of every retransmission record of a channel / of a connection -/
def ChanOKP (N : OutNode → Prop) (x : Channel) : Prop := ∀ n ∈ x.outRec, N n
def AllOKP (N : OutNode → Prop) (c : Conn) : Prop := ∀ p ∈ c.chans, ChanOKP N p.2

/-- the instance used here: the record fits into an empty packet -/
abbrev SizeN : OutNode → Prop := fun n => n.bits.length ≤ 7844
abbrev ChanOK (x : Channel) : Prop := ChanOKP SizeN x
abbrev AllOK (c : Conn) : Prop := AllOKP SizeN c

/-- a datagram of the data path has at most `UTCP_MAX_PACKET + 1` bytes -/
def SizeOK (ev : Event) : Prop := ∀ bytes, ev = .out bytes → bytes.length ≤ 1025

structure SInv (e : Env) (c : Conn) : Prop where
  magic : e.magicBits ≤ 32
  hist : c.notify.hist.length = 256
  words : c.notify.writtenWords ≤ 8
  notif : c.sendActive = true → c.sendNotif.length = 33 + 32 * c.notify.writtenWords
  room : c.sendActive = true → c.sendBitsNum e ≤ 8191
  conn : c.connected = true
  chans : AllOK c
  /-- the two sequence numbers a packet header carries are 14-bit values -/
  seqs : (0 ≤ c.notify.outSeq ∧ c.notify.outSeq < 16384) ∧ (0 ≤ c.notify.inAckSeq ∧ c.notify.inAckSeq < 16384)
  /-- the header placeholder is the encoding of a well-formed header -/
  notifEnc : c.sendActive = true → ∃ h, Props.C11.WFHeader h ∧ c.sendNotif = encodeNotifHeader h

theorem SInv.env {e e' : Env} {c : Conn} (h : SInv e c) (hm : e'.magicBits = e.magicBits) : SInv e' c := by
  refine ⟨by rw [hm]; exact h.magic, h.hist, h.words, h.notif, ?_, h.conn, h.chans, h.seqs, h.notifEnc⟩
  intro ha
  have := h.room ha
  unfold Conn.sendBitsNum Env.outHdrLen at *
  rw [hm]; exact this

/-! ### the channel table -/

theorem mem_insertSorted (ch : Nat) (x : Channel) (l : List (Nat × Channel)) (p : Nat × Channel) (h : p ∈ insertSorted ch x l) :
    p.2 = x ∨ p ∈ l := by
  induction l with
  | nil => simp [insertSorted] at h; left; rw [h]
  | cons kv rest ih =>
    obtain ⟨k, v⟩ := kv
    simp only [insertSorted] at h
    split at h
    · rcases List.mem_cons.mp h with rfl | h
      · left; rfl
      · right; exact h
    · split at h
      · rcases List.mem_cons.mp h with rfl | h
        · left; rfl
        · right; exact List.mem_cons_of_mem _ h
      · rcases List.mem_cons.mp h with rfl | h
        · right; exact List.mem_cons_self
        · rcases ih h with h | h
          · left; exact h
          · right; exact List.mem_cons_of_mem _ h

theorem setChan_allOKP {N : OutNode → Prop} (c : Conn) (ch : Nat) (x : Channel) (h : AllOKP N c) (hx : ChanOKP N x) : AllOKP N (c.setChan ch x) := by
  intro p hp
  rcases mem_insertSorted ch x c.chans p hp with h1 | h1
  · rw [h1]; exact hx
  · exact h p h1

theorem getChan_okP {N : OutNode → Prop} (c : Conn) (ch : Nat) (x : Channel) (h : AllOKP N c) (hg : c.getChan ch = some x) : ChanOKP N x := by
  unfold Conn.getChan at hg
  cases hf : c.chans.find? (·.1 == ch) with
  | none => rw [hf] at hg; simp at hg
  | some p =>
    rw [hf] at hg
    simp at hg
    rw [← hg]
    exact h p (List.mem_of_find?_eq_some hf)

theorem AllOKP.of_chans {N : OutNode → Prop} {c c' : Conn} (h : AllOKP N c) (hc : c'.chans = c.chans) : AllOKP N c' := by
  unfold AllOKP; rw [hc]; exact h

theorem setChan_allOK (c : Conn) (ch : Nat) (x : Channel) (h : AllOK c) (hx : ChanOK x) : AllOK (c.setChan ch x) := setChan_allOKP c ch x h hx
theorem getChan_ok (c : Conn) (ch : Nat) (x : Channel) (h : AllOK c) (hg : c.getChan ch = some x) : ChanOK x := getChan_okP c ch x h hg
theorem AllOK.of_chans {c c' : Conn} (h : AllOK c) (hc : c'.chans = c.chans) : AllOK c' := AllOKP.of_chans h hc

/-! ### arithmetic of `GetFreeSendBufferBits` -/

theorem freeBits_active (e : Env) (c : Conn) (ha : c.sendActive = true) (hr : c.sendBitsNum e ≤ 8191) :
    c.freeBits e = 8191 - (c.sendBitsNum e : Int) := by
  have hpos : 0 < c.sendBitsNum e := by
    unfold Conn.sendBitsNum Env.outHdrLen; simp only [ha, if_true]; omega
  unfold Conn.freeBits GetFreeSendBufferBits
  simp only
  have : decide (((c.sendBitsNum e : Nat) : Int) > 0) = true := by simp; omega
  rw [this]
  simp only [if_true]
  omega

theorem freeBits_inactive (e : Env) (c : Conn) (ha : c.sendActive = false) : c.freeBits e = 7883 := by
  unfold Conn.freeBits GetFreeSendBufferBits Conn.sendBitsNum
  simp [ha]

/-! ### one lemma per function of the sending machinery -/

theorem SInv.of_fields {e : Env} {c c' : Conn} (h : SInv e c) (h1 : c'.notify = c.notify) (h2 : c'.sendActive = c.sendActive) (h3 : c'.sendNotif = c.sendNotif)
    (h4 : c'.sendBody = c.sendBody) (h5 : c'.connected = c.connected) (h6 : AllOK c') : SInv e c' := by
  refine ⟨h.magic, by rw [h1]; exact h.hist, by rw [h1]; exact h.words, ?_, ?_, by rw [h5]; exact h.conn, h6, by rw [h1]; exact h.seqs,
    fun ha => by rw [h3]; exact h.notifEnc (by rw [← h2]; exact ha)⟩
  · intro ha; rw [h3, h1]; exact h.notif (by rw [← h2]; exact ha)
  · intro ha
    have := h.room (by rw [← h2]; exact ha)
    unfold Conn.sendBitsNum at *
    rw [h2, h3, h4]; exact this

theorem emit_sinv (e : Env) (c : Conn) (ev : Event) (h : SInv e c) : SInv e (c.emit ev) :=
  h.of_fields rfl rfl rfl rfl rfl h.chans

theorem startPacket_sinv (e : Env) (c : Conn) (h : SInv e c) :
    SInv e c.startPacket ∧ c.startPacket.sendActive = true ∧ c.startPacket.sendBitsNum e ≤ 327 := by
  obtain ⟨h1, h2, h3, h4⟩ := startPacket_header_length c h.hist
  have hm := h.magic
  have hsz : c.startPacket.sendBitsNum e ≤ 327 := by
    unfold Conn.sendBitsNum Env.outHdrLen
    have : c.startPacket.sendActive = true := rfl
    simp only [this, if_true, startPacket_sendBody, List.length_nil]
    rw [h1]; omega
  have hwf : Props.C11.WFHeader (c.notify.headerWith c.notify.curWords) :=
    ⟨h.seqs.1, h.seqs.2, curWords_range c.notify, headerWith_hist_length _ _ h.hist (curWords_range c.notify).2⟩
  refine ⟨⟨hm, h4, h2, fun _ => h1, fun _ => by omega, h.conn, h.chans, h.seqs, fun _ => ⟨_, hwf, rfl⟩⟩, rfl, hsz⟩

theorem flushNow_sinv (e : Env) (c : Conn) (h : SInv e c) (ha : c.sendActive = true) :
    SInv e (c.flushNow e) ∧ Adds SizeOK c (c.flushNow e) := by
  constructor
  · obtain ⟨_, _, k3, _, k5⟩ := finalHeader_keeps c
    have kout : c.finalHeader.1.outSeq = c.notify.outSeq := by
      unfold Conn.finalHeader Notify.fillRefresh
      split
      · rename_i n hh heq
        split at heq
        · simp at heq
        · simp at heq; obtain ⟨rfl, _⟩ := heq; rfl
      · rfl
    have hseqs : (0 ≤ c.finalHeader.1.commit.outSeq ∧ c.finalHeader.1.commit.outSeq < 16384) ∧ (0 ≤ c.finalHeader.1.commit.inAckSeq ∧ c.finalHeader.1.commit.inAckSeq < 16384) := by
      refine ⟨?_, ?_⟩
      · show 0 ≤ seq_num_inc c.finalHeader.1.outSeq 1 ∧ seq_num_inc c.finalHeader.1.outSeq 1 < 16384
        simp only [seq_num_inc, seq_num_init]; omega
      · show 0 ≤ c.finalHeader.1.inAckSeq ∧ c.finalHeader.1.inAckSeq < 16384
        rw [k3]; exact h.seqs.2
    refine ⟨h.magic, ?_, ?_, ?_, ?_, h.conn, h.chans, hseqs, fun hx => absurd hx (by simp [Conn.flushNow])⟩
    · show c.finalHeader.1.commit.hist.length = 256
      unfold Notify.commit; simp only; rw [k5]; exact h.hist
    · show c.finalHeader.1.commit.writtenWords ≤ 8
      unfold Notify.commit; simp
    · intro hx; exact absurd hx (by simp [Conn.flushNow])
    · intro hx; exact absurd hx (by simp [Conn.flushNow])
  · refine ⟨[.out (bitsToBytes (c.packetBits e))], rfl, ?_⟩
    intro ev hev
    simp only [List.mem_singleton] at hev
    subst hev
    intro bytes hb
    cases hb
    exact flush_size e c ha h.hist h.words (h.notif ha) (h.room ha)

theorem flush_sinv (e : Env) (c : Conn) (h : SInv e c) : SInv e (c.flush e) ∧ Adds SizeOK c (c.flush e) := by
  unfold Conn.flush
  split
  · exact ⟨h, Adds.refl _ _⟩
  · split
    · rename_i ha
      exact flushNow_sinv e c h ha
    · obtain ⟨s1, s2, _⟩ := startPacket_sinv e c h
      obtain ⟨f1, f2⟩ := flushNow_sinv e c.startPacket s1 s2
      exact ⟨f1, (startPacket_adds SizeOK c).trans f2⟩

/-- after `utcp_send_flush` on a connected endpoint the send buffer is empty -/
theorem flush_inactive (e : Env) (c : Conn) (hc : c.connected = true) (ha : c.sendActive = true) : (c.flush e).sendActive = false := by
  unfold Conn.flush Conn.flushDue
  simp [hc, ha, Conn.flushNow]

theorem prepareWrite_sinv (e : Env) (c : Conn) (total : Nat) (h : SInv e c) (ht : total ≤ 7844) :
    SInv e (c.prepareWrite e total) ∧ Adds SizeOK c (c.prepareWrite e total) ∧ (c.prepareWrite e total).sendActive = true ∧
    (total : Int) ≤ (c.prepareWrite e total).freeBits e := by
  unfold Conn.prepareWrite
  dsimp only
  by_cases hbig : decide ((total : Int) > c.freeBits e) = true
  · simp only [hbig, if_true]
    -- the buffer must have been active (an empty one always has room), so the flush empties it
    have ha : c.sendActive = true := by
      cases hsa : c.sendActive with
      | true => rfl
      | false =>
        rw [freeBits_inactive e c hsa] at hbig
        simp at hbig; omega
    obtain ⟨f1, f2⟩ := flush_sinv e c h
    have hina := flush_inactive e c h.conn ha
    have hn : (!(c.flush e).sendActive) = true := by simp [hina]
    simp only [hn, if_true]
    obtain ⟨s1, s2, s3⟩ := startPacket_sinv e (c.flush e) f1
    refine ⟨s1, f2.trans (startPacket_adds SizeOK _), s2, ?_⟩
    rw [freeBits_active e _ s2 (by omega)]; omega
  · simp only [hbig, Bool.false_eq_true, if_false]
    have hle : (total : Int) ≤ c.freeBits e := by simpa using hbig
    by_cases ha : c.sendActive = true
    · have hn : (!c.sendActive) = false := by simp [ha]
      simp only [hn, Bool.false_eq_true, if_false]
      exact ⟨h, Adds.refl _ _, ha, hle⟩
    · have ha' : c.sendActive = false := by simpa using ha
      have hn : (!c.sendActive) = true := by simp [ha']
      simp only [hn, if_true]
      obtain ⟨s1, s2, s3⟩ := startPacket_sinv e c h
      refine ⟨s1, startPacket_adds SizeOK _, s2, ?_⟩
      rw [freeBits_active e _ s2 (by omega)]; omega

theorem writeInternal_sinv (e : Env) (c : Conn) (bits : Bits) (h : SInv e c) (ha : c.sendActive = true) (hfit : (bits.length : Int) ≤ c.freeBits e) :
    SInv e (c.writeInternal e bits).1 ∧ Adds SizeOK c (c.writeInternal e bits).1 := by
  unfold Conn.writeInternal
  dsimp only
  have hroom := h.room ha
  rw [freeBits_active e c ha hroom] at hfit
  have h1 : SInv e { c with sendBody := c.sendBody ++ bits } := by
    refine ⟨h.magic, h.hist, h.words, h.notif, ?_, h.conn, h.chans, h.seqs, h.notifEnc⟩
    intro _
    unfold Conn.sendBitsNum at hroom hfit ⊢
    simp only [ha, if_true, List.length_append] at hroom hfit ⊢
    omega
  have ha1 : Adds SizeOK c { c with sendBody := c.sendBody ++ bits } := Adds.of_log_eq rfl
  split
  · obtain ⟨f1, f2⟩ := flush_sinv e _ h1
    exact ⟨f1, ha1.trans f2⟩
  · exact ⟨h1, ha1⟩

theorem writeBits_sinv (e : Env) (c : Conn) (bits : Bits) (h : SInv e c) (hb : bits.length ≤ 7844) :
    SInv e (c.writeBits e bits).1 ∧ Adds SizeOK c (c.writeBits e bits).1 := by
  unfold Conn.writeBits
  obtain ⟨p1, p2, p3, p4⟩ := prepareWrite_sinv e c bits.length h hb
  obtain ⟨w1, w2⟩ := writeInternal_sinv e _ bits p1 p3 p4
  exact ⟨w1, p2.trans w2⟩

theorem setChan_sinv (e : Env) (c : Conn) (ch : Nat) (x : Channel) (h : SInv e c) (hx : ChanOK x) : SInv e (c.setChan ch x) :=
  h.of_fields rfl rfl rfl rfl rfl (setChan_allOK c ch x h.chans hx)

theorem resendNodes_sinv (e : Env) (ch : Nat) (nodes : List OutNode) : ∀ c : Conn, SInv e c → (∀ n ∈ nodes, n.bits.length ≤ 7844) →
    SInv e (c.resendNodes e ch nodes) ∧ Adds SizeOK c (c.resendNodes e ch nodes) := by
  induction nodes with
  | nil => intro c h _; exact ⟨h, Adds.refl _ _⟩
  | cons n rest ih =>
    intro c h hn
    unfold Conn.resendNodes
    dsimp only
    obtain ⟨w1, w2⟩ := writeBits_sinv e c n.bits h (hn n List.mem_cons_self)
    have hstep : SInv e (match (c.writeBits e n.bits).1.getChan ch with
        | none => (c.writeBits e n.bits).1
        | some x => (c.writeBits e n.bits).1.setChan ch { x with outRec := x.outRec ++ [{ n with packetId := (c.writeBits e n.bits).2 }] }) ∧
        Adds SizeOK (c.writeBits e n.bits).1 (match (c.writeBits e n.bits).1.getChan ch with
        | none => (c.writeBits e n.bits).1
        | some x => (c.writeBits e n.bits).1.setChan ch { x with outRec := x.outRec ++ [{ n with packetId := (c.writeBits e n.bits).2 }] }) := by
      split
      · exact ⟨w1, Adds.refl _ _⟩
      · rename_i x hx
        refine ⟨setChan_sinv e _ ch _ w1 ?_, setChan_adds _ _ _ _⟩
        intro m hm
        have hxo := getChan_ok _ ch x w1.chans hx
        simp only [List.mem_append, List.mem_singleton] at hm
        rcases hm with hm | rfl
        · exact hxo m hm
        · exact hn n List.mem_cons_self
    obtain ⟨r1, r2⟩ := ih _ hstep.1 (fun m hm => hn m (List.mem_cons_of_mem _ hm))
    exact ⟨r1, (w2.trans hstep.2).trans r2⟩

theorem removeOutgoing_subset (pid : Int) (l : List OutNode) :
    (∀ n ∈ (removeOutgoing pid l).1, n ∈ l) ∧ (∀ n ∈ (removeOutgoing pid l).2, n ∈ l) := by
  induction l with
  | nil => simp [removeOutgoing]
  | cons a rest ih =>
    unfold removeOutgoing
    split
    · simp only
      refine ⟨?_, ?_⟩
      · intro n hn
        rcases List.mem_cons.mp hn with rfl | hn
        · exact List.mem_cons_self
        · exact List.mem_cons_of_mem _ (ih.1 n hn)
      · intro n hn; exact List.mem_cons_of_mem _ (ih.2 n hn)
    · split
      · simp
      · simp only
        refine ⟨?_, ?_⟩
        · intro n hn; exact List.mem_cons_of_mem _ (ih.1 n hn)
        · intro n hn
          rcases List.mem_cons.mp hn with rfl | hn
          · exact List.mem_cons_self
          · exact List.mem_cons_of_mem _ (ih.2 n hn)

theorem onNakChans_sinv (e : Env) (pid : Int) (chs : List Nat) : ∀ c : Conn, SInv e c →
    SInv e (c.onNakChans e pid chs) ∧ Adds SizeOK c (c.onNakChans e pid chs) := by
  induction chs with
  | nil => intro c h; exact ⟨h, Adds.refl _ _⟩
  | cons ch rest ih =>
    intro c h
    unfold Conn.onNakChans
    split
    · exact ih c h
    · rename_i x hx
      dsimp only
      have hxo := getChan_ok c ch x h.chans hx
      obtain ⟨s1, s2⟩ := removeOutgoing_subset pid x.outRec
      have h1 : SInv e (c.setChan ch { x with outRec := (removeOutgoing pid x.outRec).2 }) :=
        setChan_sinv e c ch _ h (fun n hn => hxo n (s2 n hn))
      obtain ⟨r1, r2⟩ := resendNodes_sinv e ch (removeOutgoing pid x.outRec).1 _ h1 (fun n hn => hxo n (s1 n hn))
      obtain ⟨i1, i2⟩ := ih _ r1
      exact ⟨i1, ((setChan_adds SizeOK c ch _).trans r2).trans i2⟩

theorem foldl_emit_sinv {α} (e : Env) (ev : Event) (l : List α) : ∀ c : Conn, SInv e c → SInv e (l.foldl (fun c _ => c.emit ev) c) := by
  induction l with
  | nil => intro c h; exact h
  | cons _ rest ih => intro c h; exact ih _ (emit_sinv e c ev h)

theorem sizeOK_of_not_out (ev : Event) (h : ∀ b, ev ≠ .out b) : SizeOK ev := fun b hb => absurd hb (h b)

theorem isFreeNode_sizeOK (ev : Event) (h : isFreeNode ev) : SizeOK ev := by
  cases ev with
  | out b => simp [isFreeNode] at h
  | _ => intro b hb; cases hb

theorem onAckChans_sinv (e : Env) (pid : Int) (chs : List Nat) : ∀ c : Conn, SInv e c → SInv e (c.onAckChans pid chs) := by
  induction chs with
  | nil => intro c h; exact h
  | cons ch rest ih =>
    intro c h
    unfold Conn.onAckChans
    split
    · exact ih c h
    · rename_i x hx
      dsimp only
      have hxo := getChan_ok c ch x h.chans hx
      obtain ⟨_, s2⟩ := removeOutgoing_subset pid x.outRec
      have h1 : SInv e (c.setChan ch { x with outRec := (removeOutgoing pid x.outRec).2 }) :=
        setChan_sinv e c ch _ h (fun n hn => hxo n (s2 n hn))
      exact ih _ (foldl_emit_sinv e _ _ _ h1)

theorem handleNotification_sinv (e : Env) (c : Conn) (v : Int × Bool) (h : SInv e c) :
    SInv e (c.handleNotification e v) ∧ Adds SizeOK c (c.handleNotification e v) := by
  unfold Conn.handleNotification
  dsimp only
  have h0 : SInv e { c with lastNotified := c.lastNotified + 1 } := h.of_fields rfl rfl rfl rfl rfl h.chans
  have a0 : Adds SizeOK c { c with lastNotified := c.lastNotified + 1 } := Adds.of_log_eq rfl
  have hs : ∀ p a, SizeOK (.status p a) := fun p a b hb => by cases hb
  split
  · exact ⟨h0, a0⟩
  · split
    · have h1 : SInv e { c with lastNotified := c.lastNotified + 1, outAckPacketId := c.lastNotified + 1 } := h.of_fields rfl rfl rfl rfl rfl h.chans
      refine ⟨emit_sinv e _ _ (onAckChans_sinv e _ _ _ h1), ?_⟩
      refine Adds.emit_trans ?_ _ (hs _ _)
      exact (Adds.of_log_eq rfl : Adds SizeOK c _).trans ((onAckChans_adds _ _ _).mono isFreeNode_sizeOK)
    · obtain ⟨n1, n2⟩ := onNakChans_sinv e (c.lastNotified + 1) (c.chans.map (·.1)) _ h0
      exact ⟨emit_sinv e _ _ n1, (a0.trans n2).emit_trans _ (hs _ _)⟩

theorem notifyUpdate_sinv (e : Env) (c : Conn) (hd : NotifHeader) (h : SInv e c) :
    SInv e (c.notifyUpdate e hd) ∧ Adds SizeOK c (c.notifyUpdate e hd) := by
  unfold Conn.notifyUpdate
  dsimp only
  have hfold : ∀ (vs : List (Int × Bool)) (c : Conn), SInv e c → SInv e (vs.foldl (Conn.handleNotification e) c) ∧ Adds SizeOK c (vs.foldl (Conn.handleNotification e) c) := by
    intro vs
    induction vs with
    | nil => intro c h; exact ⟨h, Adds.refl _ _⟩
    | cons v rest ih =>
      intro c h
      obtain ⟨a1, a2⟩ := handleNotification_sinv e c v h
      obtain ⟨b1, b2⟩ := ih _ a1
      exact ⟨b1, a2.trans b2⟩
  have hu : ∀ k a, (c.notify.updateInAckSeqAck k a).hist = c.notify.hist ∧ (c.notify.updateInAckSeqAck k a).writtenWords = c.notify.writtenWords ∧
      (c.notify.updateInAckSeqAck k a).outSeq = c.notify.outSeq ∧ (c.notify.updateInAckSeqAck k a).inAckSeq = c.notify.inAckSeq := by
    intro k a
    unfold Notify.updateInAckSeqAck
    dsimp only
    split
    · split
      · split <;> exact ⟨rfl, rfl, rfl, rfl⟩
      · exact ⟨rfl, rfl, rfl, rfl⟩
    · exact ⟨rfl, rfl, rfl, rfl⟩
  -- assigning `outAckSeq` / `inSeq` does not matter to the invariant
  have hset : ∀ (c : Conn) (n : Notify), SInv e c → n.hist = c.notify.hist → n.writtenWords = c.notify.writtenWords →
      n.outSeq = c.notify.outSeq → n.inAckSeq = c.notify.inAckSeq → SInv e { c with notify := n } := by
    intro c n h h1 h2 h3 h4
    refine ⟨h.magic, by show n.hist.length = 256; rw [h1]; exact h.hist, by show n.writtenWords ≤ 8; rw [h2]; exact h.words, ?_, ?_, h.conn, h.chans,
      by show (0 ≤ n.outSeq ∧ n.outSeq < 16384) ∧ (0 ≤ n.inAckSeq ∧ n.inAckSeq < 16384); rw [h3, h4]; exact h.seqs, h.notifEnc⟩
    · intro ha; show c.sendNotif.length = 33 + 32 * n.writtenWords; rw [h2]; exact h.notif ha
    · intro ha; exact h.room ha
  split
  · obtain ⟨u1, u2, u3, u4⟩ := hu (seq_num_diff hd.ackedSeq c.notify.outAckSeq).toNat hd.ackedSeq
    have h0 := hset c _ h u1 u2 u3 u4
    obtain ⟨f1, f2⟩ := hfold (verdicts c.notify.outAckSeq hd (seq_num_diff hd.ackedSeq c.notify.outAckSeq).toNat) _ h0
    refine ⟨hset _ _ (hset _ _ f1 rfl rfl rfl rfl) rfl rfl rfl rfl, ?_⟩
    exact ((Adds.of_log_eq rfl : Adds SizeOK c _).trans f2).trans (Adds.of_log_eq rfl)
  · exact ⟨hset _ _ h rfl rfl rfl rfl, Adds.of_log_eq rfl⟩

/-! ### the receive path keeps every retransmission record as it is -/

theorem freeNodes_chans (c : Conn) (k : Nat) : (c.freeNodes k).chans = c.chans := by
  unfold Conn.freeNodes
  have : ∀ (l : List Nat) (c : Conn), (l.foldl (fun c _ => c.emit (.free .node)) c).chans = c.chans := by
    intro l
    induction l with
    | nil => intro c; rfl
    | cons a rest ih => intro c; exact ih _
  exact this _ _

theorem markClosed_okP {N : OutNode → Prop} (x : Channel) (r : Nat) (h : ChanOKP N x) : ChanOKP N (x.markClosed r) := by
  unfold Channel.markClosed; split
  · exact h
  · exact h

theorem noteClose_allOKP {N : OutNode → Prop} (c : Conn) (b : Bunch) (h : AllOKP N c) : AllOKP N (c.noteClose b) := by
  unfold Conn.noteClose
  split
  · exact h
  · dsimp only
    have hc : AllOKP N (if (b.chIndex == 0) = true then c.markClose crControlChannelClose else c) := by
      split
      · exact h.of_chans (markClose_chans _ _)
      · exact h
    generalize (if (b.chIndex == 0) = true then c.markClose crControlChannelClose else c) = c' at *
    split
    · exact hc
    · rename_i x hx
      exact (setChan_allOKP c' _ _ hc (markClosed_okP x _ (getChan_okP c' _ x hc hx))).of_chans rfl

theorem foldl_noteClose_allOKP {N : OutNode → Prop} (g : List Bunch) : ∀ c : Conn, AllOKP N c → AllOKP N (g.foldl Conn.noteClose c) := by
  induction g with
  | nil => intro c h; exact h
  | cons b rest ih => intro c h; exact ih _ (noteClose_allOKP c b h)

theorem mergePartial_okP {N : OutNode → Prop} (c : Conn) (x : Channel) (b : Bunch) (h : AllOKP N c) (hx : ChanOKP N x) :
    AllOKP N (mergePartial c x b).1 ∧ ChanOKP N (mergePartial c x b).2.1 := by
  unfold mergePartial mergeInitial mergeNext
  split
  · split
    · exact ⟨h, hx⟩
    · split
      · exact ⟨h, hx⟩
      · exact ⟨h.of_chans (freeNodes_chans _ _), hx⟩
  · split
    · exact ⟨h, hx⟩
    · split
      · exact ⟨h, hx⟩
      · split
        · exact ⟨h, hx⟩
        · exact ⟨h.of_chans (freeNodes_chans _ _), hx⟩

theorem receivedNextBunch_allOKP {N : OutNode → Prop} (c : Conn) (b : Bunch) (h : AllOKP N c) : AllOKP N (c.receivedNextBunch b).1 := by
  unfold Conn.receivedNextBunch
  split
  · exact h.of_chans rfl
  · rename_i x hx
    have hxo := getChan_okP c _ x h hx
    dsimp only
    have hx' : ChanOKP N (if b.bReliable = true then { x with inReliable := b.chSeq } else x) := by
      split
      · exact hxo
      · exact hxo
    split
    · have hm := mergePartial_okP c (if b.bReliable = true then { x with inReliable := b.chSeq } else x) b h hx'
      generalize mergePartial c (if b.bReliable = true then { x with inReliable := b.chSeq } else x) b = r at hm
      obtain ⟨c1, x1, res, skip⟩ := r
      simp only at hm ⊢
      have h1 : AllOKP N (c1.setChan b.chIndex x1) := setChan_allOKP _ _ _ hm.1 hm.2
      cases res with
      | succeed => exact h1
      | fatal => exact h1.of_chans rfl
      | failed => exact h1.of_chans rfl
      | available =>
        simp only
        split
        · have h2 : AllOKP N ((c1.setChan b.chIndex x1).freeNodes x1.inPartial.length) := h1.of_chans (freeNodes_chans _ _)
          exact (setChan_allOKP _ b.chIndex { x1 with inPartial := [] } h2 hm.2).of_chans (markClose_chans _ _)
        · have h2 : AllOKP N (x1.inPartial.foldl Conn.noteClose (c1.setChan b.chIndex x1)) := foldl_noteClose_allOKP _ _ h1
          have h3 : AllOKP N (((x1.inPartial.foldl Conn.noteClose (c1.setChan b.chIndex x1)).emit (.recv x1.inPartial)).freeNodes x1.inPartial.length) :=
            (h2.of_chans rfl : AllOKP N ((x1.inPartial.foldl Conn.noteClose (c1.setChan b.chIndex x1)).emit (.recv x1.inPartial))).of_chans (freeNodes_chans _ _)
          split
          · exact h3
          · rename_i x2 hx2
            exact setChan_allOKP _ _ _ h3 (getChan_okP _ _ x2 h3 hx2)
    · have h1 : AllOKP N (c.setChan b.chIndex (if b.bReliable = true then { x with inReliable := b.chSeq } else x)) := setChan_allOKP _ _ _ h hx'
      exact ((noteClose_allOKP _ b h1).of_chans rfl : AllOKP N (((c.setChan b.chIndex _).noteClose b).emit (.recv [b]))).of_chans rfl

theorem dispatchWaiting_allOKP {N : OutNode → Prop} (fuel : Nat) : ∀ (c : Conn) (ch : Nat), AllOKP N c → AllOKP N (Conn.dispatchWaiting fuel c ch) := by
  induction fuel with
  | zero => intro c ch h; exact h
  | succ f ih =>
    intro c ch h
    unfold Conn.dispatchWaiting
    split
    · exact h
    · rename_i x hx
      split
      · exact h
      · split
        · exact h
        · dsimp only
          exact ih _ _ (receivedNextBunch_allOKP _ _ (setChan_allOKP c ch _ h (getChan_okP c ch x h hx)))

theorem createChan_allOKP {N : OutNode → Prop} (c : Conn) (ch : Nat) (h : AllOKP N c) : AllOKP N (c.createChan ch) := by
  unfold Conn.createChan
  dsimp only
  refine setChan_allOKP _ _ _ ?_ (by intro n hn; simp at hn)
  split
  · exact h.of_chans rfl
  · split
    · exact h.of_chans rfl
    · exact h.of_chans rfl

theorem getOrCreateChan_allOKP {N : OutNode → Prop} (c : Conn) (b : Bunch) (inc : Bool) (h : AllOKP N c) :
    AllOKP N (c.getOrCreateChan b inc).1 ∧ ∀ x, (c.getOrCreateChan b inc).2 = some x → ChanOKP N x := by
  unfold Conn.getOrCreateChan
  split
  · rename_i x hx
    exact ⟨h, fun y hy => by simp at hy; rw [← hy]; exact getChan_okP c _ x h hx⟩
  · split
    · have hc := createChan_allOKP c b.chIndex h
      exact ⟨hc, fun y hy => getChan_okP _ _ y hc hy⟩
    · exact ⟨h, fun y hy => by simp at hy⟩

theorem processBunch_allOKP {N : OutNode → Prop} (c : Conn) (x : Channel) (b : Bunch) (h : AllOKP N c) (hx : ChanOKP N x) : AllOKP N (c.processBunch x b).1 := by
  unfold Conn.processBunch
  split
  · exact h.of_chans rfl
  · split
    · split
      · exact h.of_chans rfl
      · split
        · exact setChan_allOKP _ _ _ h hx
        · exact h.of_chans rfl
    · exact receivedNextBunch_allOKP _ _ h

theorem receivedRawBunch_allOKP {N : OutNode → Prop} (c : Conn) (bits : Bits) (h : AllOKP N c) : AllOKP N (c.receivedRawBunch bits).1 := by
  unfold Conn.receivedRawBunch
  dsimp only
  have h0 : AllOKP N (c.emit (.alloc .node)) := h.of_chans rfl
  split
  · exact (h0.of_chans (markClose_chans _ _) : AllOKP N ((c.emit (.alloc .node)).markClose crBunchOverflow)).of_chans rfl
  · split
    · exact (h0.of_chans (markClose_chans _ _) : AllOKP N ((c.emit (.alloc .node)).markClose crBunchBadChannelIndex)).of_chans rfl
    · rename_i b rest hdec hch
      obtain ⟨g1, g2⟩ := getOrCreateChan_allOKP (c.emit (.alloc .node)) { b with packetId := (c.emit (.alloc .node)).inPacketId } true h0
      split
      · exact g1.of_chans rfl
      · rename_i x hx
        exact dispatchWaiting_allOKP _ _ _ (processBunch_allOKP _ _ _ g1 (g2 x hx))

theorem bunchLoop_allOKP {N : OutNode → Prop} (fuel : Nat) : ∀ (c : Conn) (bits : Bits) (skip : Bool), AllOKP N c → AllOKP N (Conn.bunchLoop fuel c bits skip).1 := by
  induction fuel with
  | zero => intro c bits skip h; exact h
  | succ f ih =>
    intro c bits skip h
    unfold Conn.bunchLoop
    split
    · exact h
    · exact ih _ _ _ (receivedRawBunch_allOKP c bits h)

/-! the size instance, under the names used above and below -/
theorem markClosed_ok (x : Channel) (r : Nat) (h : ChanOK x) : ChanOK (x.markClosed r) := markClosed_okP x r h
theorem noteClose_allOK (c : Conn) (b : Bunch) (h : AllOK c) : AllOK (c.noteClose b) := noteClose_allOKP c b h
theorem getOrCreateChan_allOK (c : Conn) (b : Bunch) (inc : Bool) (h : AllOK c) :
    AllOK (c.getOrCreateChan b inc).1 ∧ ∀ x, (c.getOrCreateChan b inc).2 = some x → ChanOK x := getOrCreateChan_allOKP c b inc h
theorem bunchLoop_allOK (fuel : Nat) (c : Conn) (bits : Bits) (skip : Bool) (h : AllOK c) : AllOK (Conn.bunchLoop fuel c bits skip).1 :=
  bunchLoop_allOKP fuel c bits skip h

/-- the bunch loop emits no datagram, so `SizeOK` tolerates everything it logs -/
theorem sizeOK_pred : RecvPred SizeOK :=
  ⟨fun k b hb => (by cases hb), fun k b hb => (by cases hb), fun k b hb => (by cases hb), fun g _ _ b hb => (by cases hb)⟩

theorem pushHist_length (hist : List Bool) (b : Bool) (h : hist.length = 256) : (pushHist hist b).length = 256 := by
  unfold pushHist; rw [show histLen = 256 from by decide]; simp [h]

theorem ackSeqLoop_fields (fuel : Nat) : ∀ (n : Notify) (acked : Int) (isAck : Bool), n.hist.length = 256 →
    (ackSeqLoop fuel n acked isAck).hist.length = 256 ∧ (ackSeqLoop fuel n acked isAck).writtenWords = n.writtenWords := by
  induction fuel with
  | zero => intro n _ _ h; exact ⟨h, rfl⟩
  | succ f ih =>
    intro n acked isAck h
    unfold ackSeqLoop
    split
    · exact ih _ _ _ (pushHist_length _ _ h)
    · exact ⟨h, rfl⟩

theorem ackSeqLoop_seqs (fuel : Nat) : ∀ (n : Notify) (acked : Int) (isAck : Bool), (0 ≤ n.inAckSeq ∧ n.inAckSeq < 16384) →
    (ackSeqLoop fuel n acked isAck).outSeq = n.outSeq ∧ (0 ≤ (ackSeqLoop fuel n acked isAck).inAckSeq ∧ (ackSeqLoop fuel n acked isAck).inAckSeq < 16384) := by
  induction fuel with
  | zero => intro n _ _ h; exact ⟨rfl, h⟩
  | succ f ih =>
    intro n acked isAck h
    unfold ackSeqLoop
    split
    · exact ih _ _ _ (by show 0 ≤ seq_num_inc n.inAckSeq 1 ∧ seq_num_inc n.inAckSeq 1 < 16384; simp only [seq_num_inc, seq_num_init]; omega)
    · exact ⟨rfl, h⟩

/-- **`ReceivedPacket` on any bit string keeps the invariant, and whatever it emits (retransmissions triggered by NAKs, packets
flushed to make room for them) respects the size bound** -/
theorem receivedPacket_sinv (e : Env) (c : Conn) (bits : Bits) (h : SInv e c) :
    SInv e (c.receivedPacket e bits).1 ∧ Adds SizeOK c (c.receivedPacket e bits).1 := by
  unfold Conn.receivedPacket
  split
  · exact ⟨h.of_fields (markClose_notify _ _) (by unfold Conn.markClose; split <;> rfl) (by unfold Conn.markClose; split <;> rfl)
      (by unfold Conn.markClose; split <;> rfl) (by unfold Conn.markClose; split <;> rfl) (h.chans.of_chans (markClose_chans _ _)), markClose_adds _ _ _⟩
  · rename_i hd rest hdec
    dsimp only
    split
    · exact ⟨h, Adds.refl _ _⟩
    · have h0 : SInv e { c with inPacketId := c.inPacketId + c.notify.deltaSeq hd } := h.of_fields rfl rfl rfl rfl rfl h.chans
      obtain ⟨n1, n2⟩ := notifyUpdate_sinv e _ hd h0
      generalize ({ c with inPacketId := c.inPacketId + c.notify.deltaSeq hd } : Conn).notifyUpdate e hd = c2 at n1 n2 ⊢
      have hs := bunchLoop_sameN (rest.length + 1) c2 rest false
      have ha := bunchLoop_allOK (rest.length + 1) c2 rest false n1.chans
      have hl := bunchLoop_adds sizeOK_pred (rest.length + 1) c2 rest false
      generalize Conn.bunchLoop (rest.length + 1) c2 rest false = r at hs ha hl ⊢
      obtain ⟨c3, rest', skip⟩ := r
      simp only at hs ha hl ⊢
      have h3 : SInv e c3 := n1.of_fields hs.notify hs.sendActive hs.sendNotif hs.sendBody hs.connected ha
      obtain ⟨k1, k2⟩ := ackSeqLoop_fields 16384 c3.notify (seq_num_init (c3.inPacketId % 65536)) (!skip) h3.hist
      obtain ⟨q1, q2⟩ := ackSeqLoop_seqs 16384 c3.notify (seq_num_init (c3.inPacketId % 65536)) (!skip) h3.seqs.2
      refine ⟨⟨h3.magic, k1, by show (c3.notify.ackSeq _ _).writtenWords ≤ 8; unfold Notify.ackSeq; rw [k2]; exact h3.words, ?_, ?_, h3.conn, h3.chans,
        ⟨by show 0 ≤ (c3.notify.ackSeq _ _).outSeq ∧ (c3.notify.ackSeq _ _).outSeq < 16384; unfold Notify.ackSeq; rw [q1]; exact h3.seqs.1,
         by show 0 ≤ (c3.notify.ackSeq _ _).inAckSeq ∧ (c3.notify.ackSeq _ _).inAckSeq < 16384; unfold Notify.ackSeq; exact q2⟩, h3.notifEnc⟩, ?_⟩
      · intro hx
        show c3.sendNotif.length = 33 + 32 * (c3.notify.ackSeq _ _).writtenWords
        unfold Notify.ackSeq; rw [k2]; exact h3.notif hx
      · intro hx; exact h3.room hx
      · refine ((Adds.of_log_eq rfl : Adds SizeOK c _).trans n2).trans ?_
        exact hl.trans (Adds.of_log_eq rfl)

/-! ### the send API -/

theorem writeSeq_length (rel : Bool) (s : Int) : (writeSeq rel s).length = if rel then 10 else 0 := by
  unfold writeSeq
  split
  · rw [maxChSequence_eq, writeIntWrapped_pow2 10 _ (by decide)]; simp
  · rfl

/-- the size of a bunch header does not depend on the sequence number written into it -/
theorem encodeBunchHeader_length_seq (b : Bunch) (s : Int) (h0 h : Bits) (e0 : encodeBunchHeader { b with chSeq := 0 } = some h0)
    (e1 : encodeBunchHeader { b with chSeq := s } = some h) : h.length = h0.length := by
  unfold encodeBunchHeader at e0 e1
  simp only at e0 e1
  split at e0
  · simp at e0
  · split at e1
    · simp at e1
    · simp only [Option.some.injEq] at e0 e1
      subst e0; subst e1
      simp only [List.length_append, writeSeq_length]

theorem addOutRec_sinv (e : Env) (c : Conn) (ch : Nat) (pid : Int) (bits : Bits) (h : SInv e c) (hb : bits.length ≤ 7844) :
    SInv e (c.addOutRec ch pid bits) := by
  unfold Conn.addOutRec
  split
  · exact h
  · rename_i x hx
    refine setChan_sinv e c ch _ h ?_
    intro n hn
    simp only [List.mem_append, List.mem_singleton] at hn
    rcases hn with hn | rfl
    · exact getChan_ok c ch x h.chans hx n hn
    · exact hb

theorem noteClose_sinv (e : Env) (c : Conn) (b : Bunch) (h : SInv e c) : SInv e (c.noteClose b) := by
  have hs := noteClose_sameN c b
  exact h.of_fields hs.notify hs.sendActive hs.sendNotif hs.sendBody hs.connected (noteClose_allOK c b h.chans)

theorem getOrCreateChan_sinv (e : Env) (c : Conn) (b : Bunch) (inc : Bool) (h : SInv e c) : SInv e (c.getOrCreateChan b inc).1 := by
  have hs := getOrCreateChan_sameN c b inc
  exact h.of_fields hs.notify hs.sendActive hs.sendNotif hs.sendBody hs.connected (getOrCreateChan_allOK c b inc h.chans).1

theorem write_core (e : Env) (c2 : Conn) (hdr data : Bits) (h2 : SInv e c2) (hfit : hdr.length + data.length ≤ 7844) :
    SInv e ((c2.prepareWrite e (hdr.length + data.length)).writeInternal e (hdr ++ data)).1 ∧
    Adds SizeOK c2 ((c2.prepareWrite e (hdr.length + data.length)).writeInternal e (hdr ++ data)).1 := by
  obtain ⟨p1, p2, p3, p4⟩ := prepareWrite_sinv e c2 (hdr.length + data.length) h2 hfit
  obtain ⟨w1, w2⟩ := writeInternal_sinv e _ (hdr ++ data) p1 p3 (by simpa using p4)
  exact ⟨w1, p2.trans w2⟩

theorem getD_header_length (b : Bunch) (s : Int) (h0 : Bits) (henc : encodeBunchHeader { b with chSeq := 0 } = some h0) :
    ((encodeBunchHeader { b with chSeq := s }).getD h0).length = h0.length := by
  cases he : encodeBunchHeader { b with chSeq := s } with
  | none => rfl
  | some hh => simp only [Option.getD_some]; exact encodeBunchHeader_length_seq b _ h0 hh henc he

theorem addOutRec_adds (P : Event → Prop) (c : Conn) (ch : Nat) (pid : Int) (bits : Bits) : Adds P c (c.addOutRec ch pid bits) := by
  apply Adds.of_log_eq
  unfold Conn.addOutRec
  split <;> rfl

/-- an accepted send keeps the invariant; what it emits on the way (a full packet flushed to make room) respects the bound -/
theorem sendCommit_sinv (e : Env) (c : Conn) (b : Bunch) (h0 : Bits) (h : SInv e c) (hchk : c.sendCheck b = .inr h0) :
    SInv e (c.sendCommit e b h0).1 ∧ Adds SizeOK c (c.sendCommit e b h0).1 := by
  obtain ⟨hfit, _, henc⟩ := Props.C14.accepted_fits c b h0 hchk
  unfold Conn.sendCommit
  dsimp only
  have h1 : SInv e ((c.getOrCreateChan b false).1.noteClose b) := noteClose_sinv e _ b (getOrCreateChan_sinv e c b false h)
  have a1 : Adds SizeOK c ((c.getOrCreateChan b false).1.noteClose b) :=
    (getOrCreateChan_adds sizeOK_pred c b false).trans (noteClose_adds SizeOK _ b)
  generalize (c.getOrCreateChan b false).1.noteClose b = c1 at h1 a1 ⊢
  split
  · exact ⟨h1, a1⟩
  · rename_i x hx
    have hxo := getChan_ok c1 _ x h1.chans hx
    generalize (if b.bReliable = true then x.outReliable + 1 else 0 : Int) = seq
    have hlen : (if b.bReliable = true then (encodeBunchHeader { b with chSeq := seq }).getD h0 else h0).length = h0.length := by
      split
      · exact getD_header_length b seq h0 henc
      · rfl
    generalize (if b.bReliable = true then (encodeBunchHeader { b with chSeq := seq }).getD h0 else h0) = hdr at hlen ⊢
    have h2 : SInv e (if b.bReliable = true then c1.setChan b.chIndex { x with outReliable := seq } else c1) := by
      split
      · exact setChan_sinv e c1 _ _ h1 hxo
      · exact h1
    have a2 : Adds SizeOK c1 (if b.bReliable = true then c1.setChan b.chIndex { x with outReliable := seq } else c1) := by
      split
      · exact setChan_adds _ _ _ _
      · exact Adds.refl _ _
    generalize (if b.bReliable = true then c1.setChan b.chIndex { x with outReliable := seq } else c1) = c2 at h2 a2 ⊢
    obtain ⟨w1, w2⟩ := write_core e c2 hdr b.data h2 (by rw [hlen]; exact hfit)
    split
    · refine ⟨addOutRec_sinv e _ _ _ _ (emit_sinv e _ _ w1) (by simp only [List.length_append]; rw [hlen]; exact hfit), ?_⟩
      exact ((((a1.trans a2).trans w2).emit_trans _ (fun bb hb => by cases hb))).trans (addOutRec_adds _ _ _ _ _)
    · exact ⟨w1, (a1.trans a2).trans w2⟩

theorem sendBunch_sinv (e : Env) (c : Conn) (b : Bunch) (h : SInv e c) :
    SInv e (c.sendBunch e b).1 ∧ Adds SizeOK c (c.sendBunch e b).1 := by
  have hraw : SInv e (c.sendRaw e b).1 ∧ Adds SizeOK c (c.sendRaw e b).1 := by
    unfold Conn.sendRaw
    split
    · exact ⟨h, Adds.refl _ _⟩
    · rename_i h0 hchk
      exact sendCommit_sinv e c b h0 h hchk
  unfold Conn.sendBunch
  generalize c.sendRaw e b = r at hraw ⊢
  obtain ⟨c', rr⟩ := r
  simp only at hraw ⊢
  split <;> exact hraw

/-- `utcp_sequence_init` on a connection whose send buffer is empty -/
theorem seqInit_sinv (e : Env) (c : Conn) (i o : Int) (hm : e.magicBits ≤ 32) (ha : c.sendActive = false) (hw : c.notify.writtenWords ≤ 8)
    (hc : c.connected = true) (hch : AllOK c) : SInv e (c.seqInit i o) := by
  refine ⟨hm, ?_, hw, ?_, ?_, hc, hch.of_chans rfl, ?_, fun hx => absurd (show c.sendActive = true from hx) (by simp [ha])⟩
  rotate_left 3
  · show (0 ≤ seq_num_init (o % 65536) ∧ seq_num_init (o % 65536) < 16384) ∧ (0 ≤ seq_num_init ((i - 1) % 65536) ∧ seq_num_init ((i - 1) % 65536) < 16384)
    simp only [seq_num_init]; omega
  · show (List.replicate histLen false).length = 256
    rw [List.length_replicate]; decide
  · intro hx; exact absurd (show c.sendActive = true from hx) (by simp [ha])
  · intro hx; exact absurd (show c.sendActive = true from hx) (by simp [ha])

/-! ### periodic work -/

theorem freeNodes_sinv (e : Env) (c : Conn) (k : Nat) (h : SInv e c) : SInv e (c.freeNodes k) ∧ Adds SizeOK c (c.freeNodes k) := by
  have hs := freeNodes_sameN c k
  exact ⟨h.of_fields hs.notify hs.sendActive hs.sendNotif hs.sendBody hs.connected (h.chans.of_chans (freeNodes_chans c k)),
    (freeNodes_adds c k).mono isFreeNode_sizeOK⟩

theorem freeChan_sinv (e : Env) (c : Conn) (x : Channel) (h : SInv e c) : SInv e (c.freeChan x) ∧ Adds SizeOK c (c.freeChan x) ∧ (c.freeChan x).chans = c.chans := by
  unfold Conn.freeChan
  dsimp only
  obtain ⟨a1, a2⟩ := freeNodes_sinv e c x.inRec.length h
  obtain ⟨b1, b2⟩ := freeNodes_sinv e _ x.outRec.length a1
  obtain ⟨c1, c2⟩ := freeNodes_sinv e _ x.inPartial.length b1
  refine ⟨emit_sinv e _ _ c1, ((a2.trans b2).trans c2).emit_trans _ (fun bb hb => by cases hb), ?_⟩
  show (((c.freeNodes _).freeNodes _).freeNodes _).chans = c.chans
  rw [freeNodes_chans, freeNodes_chans, freeNodes_chans]

theorem delayClose_sinv (e : Env) (c : Conn) (h : SInv e c) : SInv e c.delayClose ∧ Adds SizeOK c c.delayClose := by
  unfold Conn.delayClose
  split
  · exact ⟨h, Adds.refl _ _⟩
  · dsimp only
    have h0 : SInv e { c with hasChannelClose := false } := h.of_fields rfl rfl rfl rfl rfl h.chans
    have a0 : Adds SizeOK c { c with hasChannelClose := false } := Adds.of_log_eq rfl
    have hfold : ∀ (l : List (Nat × Channel)) (c' : Conn), SInv e c' →
        SInv e (l.foldl (fun c (p : Nat × Channel) =>
          if !p.2.bClose then c
          else if !p.2.outRec.isEmpty then { c with hasChannelClose := true }
          else { c.freeChan p.2 with chans := c.chans.filter (·.1 != p.1) }) c') ∧
        Adds SizeOK c' (l.foldl (fun c (p : Nat × Channel) =>
          if !p.2.bClose then c
          else if !p.2.outRec.isEmpty then { c with hasChannelClose := true }
          else { c.freeChan p.2 with chans := c.chans.filter (·.1 != p.1) }) c') := by
      intro l
      induction l with
      | nil => intro c' h'; exact ⟨h', Adds.refl _ _⟩
      | cons p rest ih =>
        intro c' h'
        simp only [List.foldl_cons]
        split
        · exact ih _ h'
        · split
          · obtain ⟨i1, i2⟩ := ih { c' with hasChannelClose := true } (h'.of_fields rfl rfl rfl rfl rfl h'.chans)
            exact ⟨i1, (Adds.of_log_eq rfl : Adds SizeOK c' _).trans i2⟩
          · obtain ⟨f1, f2, f3⟩ := freeChan_sinv e c' p.2 h'
            have hs : SInv e { c'.freeChan p.2 with chans := c'.chans.filter (·.1 != p.1) } :=
              f1.of_fields rfl rfl rfl rfl rfl (fun q hq => h'.chans q (List.mem_filter.mp hq).1)
            obtain ⟨i1, i2⟩ := ih _ hs
            exact ⟨i1, (f2.trans (Adds.of_log_eq rfl)).trans i2⟩
    obtain ⟨r1, r2⟩ := hfold c.chans.reverse _ h0
    exact ⟨r1, a0.trans r2⟩

/-- `utcp_update` of a connected endpoint: timeout test, deferred channel teardown, disconnect report -/
theorem update_sinv (e : Env) (c : Conn) (h : SInv e c) : SInv e (c.checkTimeout e).updateTail.1 ∧ Adds SizeOK c (c.checkTimeout e).updateTail.1 := by
  have h1 : SInv e (c.checkTimeout e) ∧ Adds SizeOK c (c.checkTimeout e) := by
    unfold Conn.checkTimeout
    split
    · have hs := markClose_sameN c crConnectionTimeout
      exact ⟨h.of_fields hs.notify hs.sendActive hs.sendNotif hs.sendBody hs.connected (h.chans.of_chans (markClose_chans _ _)), markClose_adds _ _ _⟩
    · exact ⟨h, Adds.refl _ _⟩
  obtain ⟨d1, d2⟩ := delayClose_sinv e _ h1.1
  unfold Conn.updateTail
  dsimp only
  split
  · exact ⟨d1, h1.2.trans d2⟩
  · exact ⟨emit_sinv e _ _ d1, (h1.2.trans d2).emit_trans _ (fun bb hb => by cases hb)⟩

end Utcp
