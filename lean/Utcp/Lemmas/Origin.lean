import Utcp.Lemmas.GroupInv
import Utcp.Props.C11
/-!
# Where delivered bunches come from (receiver side)

`Q` is any predicate on bunches that does not look at the packet id and survives making the sequence number absolute (`QStable`).  `OInv Q c`: every bunch
waiting in a channel of `c` (out-of-order queue, reassembly list) satisfies `Q`.  `OP Q ev`: if `ev` is a receive callback, every
bunch it carries satisfies `Q`.  One lemma per function of the receive path; then: if the body of every packet is a concatenation of
encodings of well-formed bunches satisfying `Q`, everything ever delivered satisfies `Q`.
-/
namespace Utcp
open Gen Partial

structure QStable (Q : Bunch → Prop) : Prop where
  /-- a reliable bunch keeps `Q` when its wire sequence is made absolute against any reference -/
  seq : ∀ (b : Bunch) (ref : Int), b.bReliable = true → Q b → Q { b with chSeq := MakeRelative_chseq b.chSeq ref }
  /-- an unreliable bunch keeps `Q` whatever sequence it borrows -/
  useq : ∀ (b : Bunch) (s : Int), b.bReliable = false → Q b → Q { b with chSeq := s }
  pid : ∀ (b : Bunch) (p : Int), Q b → Q { b with packetId := p }

def ChanQ (Q : Bunch → Prop) (x : Channel) : Prop := (∀ q ∈ x.inRec, Q q) ∧ (∀ q ∈ x.inPartial, Q q)

def OInv (Q : Bunch → Prop) (c : Conn) : Prop := ∀ ch x, c.getChan ch = some x → ChanQ Q x

def OP (Q : Bunch → Prop) (ev : Event) : Prop := ∀ g, ev = .recv g → ∀ q ∈ g, Q q

theorem oP_of_not_recv (Q : Bunch → Prop) (ev : Event) (h : isRecv ev = false) : OP Q ev := by
  intro g hg; subst hg; simp [isRecv] at h

theorem OInv.of_chans {Q : Bunch → Prop} {c c' : Conn} (h : OInv Q c) (hc : c'.chans = c.chans) : OInv Q c' := by
  intro ch x hx
  exact h ch x (by unfold Conn.getChan at hx ⊢; rw [← hc]; exact hx)

theorem setChan_oinv {Q : Bunch → Prop} (c : Conn) (ch : Nat) (x : Channel) (h : OInv Q c) (hx : ChanQ Q x) : OInv Q (c.setChan ch x) := by
  intro ch' x' hx'
  by_cases he : ch' = ch
  · subst he; rw [getChan_setChan_self] at hx'; cases hx'; exact hx
  · rw [getChan_setChan_other _ _ _ _ he] at hx'; exact h ch' x' hx'

theorem OInv.of_rsame {Q : Bunch → Prop} {c c' : Conn} (h : OInv Q c) (hs : RSame c c') : OInv Q c' := by
  intro ch x' hx'
  have := hs.chan ch
  rw [hx'] at this
  cases hx : c.getChan ch with
  | none => rw [hx] at this; simp at this
  | some x =>
    rw [hx] at this
    simp only [Option.map_some, Option.some.injEq] at this
    have h1 : x'.inPartial = x.inPartial := congrArg (·.1) this
    have h2 : x'.inRec = x.inRec := congrArg (·.2.1) this
    have hq := h ch x hx
    exact ⟨by rw [h2]; exact hq.1, by rw [h1]; exact hq.2⟩

theorem mergePartial_q {Q : Bunch → Prop} (c : Conn) (x1 : Channel) (b : Bunch) (hx : ChanQ Q x1) (hb : Q b) : ChanQ Q (mergePartial c x1 b).2.1 := by
  unfold mergePartial mergeInitial mergeNext
  have single : ChanQ Q { x1 with inPartial := [b] } := ⟨hx.1, by intro q hq; simp at hq; subst hq; exact hb⟩
  have cleared : ChanQ Q { x1 with inPartial := [] } := ⟨hx.1, by intro q hq; simp at hq⟩
  split
  · split
    · exact single
    · split
      · exact hx
      · exact single
  · split
    · exact hx
    · split
      · refine ⟨hx.1, ?_⟩
        intro q hq
        simp only [List.mem_append, List.mem_singleton] at hq
        rcases hq with hq | rfl
        · exact hx.2 q hq
        · exact hb
      · split
        · exact hx
        · exact cleared

theorem receivedNextBunch_oinv {Q : Bunch → Prop} (c : Conn) (b : Bunch) (h : OInv Q c) (hb : Q b) :
    OInv Q (c.receivedNextBunch b).1 ∧ Adds (OP Q) c (c.receivedNextBunch b).1 := by
  have hfn : OP Q (.free .node) := oP_of_not_recv Q _ rfl
  have hfree : ∀ (c : Conn) k, Adds (OP Q) c (c.freeNodes k) := fun c k =>
    (freeNodes_adds c k).mono (fun ev hev => oP_of_not_recv Q ev (isFreeNode_not_recv ev hev))
  unfold Conn.receivedNextBunch
  split
  · exact ⟨h.of_chans rfl, Adds.emit _ _ hfn⟩
  · rename_i x0 hx0
    have hq0 := h _ x0 hx0
    dsimp only
    have hq1 : ChanQ Q (if b.bReliable = true then { x0 with inReliable := b.chSeq } else x0) := by
      split <;> exact hq0
    generalize (if b.bReliable = true then { x0 with inReliable := b.chSeq } else x0) = x1 at hq1 ⊢
    split
    · have hmq := mergePartial_q c x1 b hq1 hb
      have hmc := mergePartial_chans c x1 b
      have hma := (mergePartial_adds c x1 b).mono (fun ev hev => oP_of_not_recv Q ev (isFreeNode_not_recv ev hev))
      generalize mergePartial c x1 b = r at hmq hmc hma ⊢
      obtain ⟨c1, x2, res, skip⟩ := r
      simp only at hmq hmc hma ⊢
      have g2 : OInv Q (c1.setChan b.chIndex x2) := setChan_oinv _ _ _ (h.of_chans hmc) hmq
      have a2 : Adds (OP Q) c (c1.setChan b.chIndex x2) := hma.trans (setChan_adds _ _ _ _)
      cases res with
      | succeed => exact ⟨g2, a2⟩
      | fatal => exact ⟨g2.of_chans rfl, a2.emit_trans _ hfn⟩
      | failed => exact ⟨g2.of_chans rfl, a2.emit_trans _ hfn⟩
      | available =>
        simp only
        split
        · refine ⟨(setChan_oinv _ b.chIndex { x2 with inPartial := [] } (g2.of_chans (freeNodes_chans' _ _)) ⟨hmq.1, by intro q hq; simp at hq⟩).of_chans (markClose_chans _ _), ?_⟩
          exact (a2.trans (hfree _ _)).trans ((setChan_adds _ _ _ _).trans (markClose_adds _ _ _))
        · have hok : OP Q (.recv x2.inPartial) := by
            intro g hg; cases hg; exact hmq.2
          have hrs := foldl_noteClose_rsame x2.inPartial (c1.setChan b.chIndex x2)
          have g3 : OInv Q (((x2.inPartial.foldl Conn.noteClose (c1.setChan b.chIndex x2)).emit (.recv x2.inPartial)).freeNodes x2.inPartial.length) :=
            ((g2.of_rsame hrs).of_chans rfl : OInv Q ((x2.inPartial.foldl Conn.noteClose (c1.setChan b.chIndex x2)).emit (.recv x2.inPartial))).of_chans (freeNodes_chans' _ _)
          have a3 : Adds (OP Q) c (((x2.inPartial.foldl Conn.noteClose (c1.setChan b.chIndex x2)).emit (.recv x2.inPartial)).freeNodes x2.inPartial.length) :=
            ((a2.trans (foldl_noteClose_adds (OP Q) x2.inPartial _)).emit_trans _ hok).trans (hfree _ _)
          split
          · exact ⟨g3, a3⟩
          · rename_i x5 hx5
            have hq5 := g3 _ x5 hx5
            exact ⟨setChan_oinv _ _ _ g3 ⟨hq5.1, by intro q hq; simp at hq⟩, a3.trans (setChan_adds _ _ _ _)⟩
    · have hok : OP Q (.recv [b]) := by
        intro g hg; cases hg
        intro q hq; simp at hq; subst hq; exact hb
      have g1 : OInv Q (c.setChan b.chIndex x1) := setChan_oinv _ _ _ h hq1
      refine ⟨((g1.of_rsame (noteClose_rsame _ b)).of_chans rfl : OInv Q (((c.setChan b.chIndex x1).noteClose b).emit (.recv [b]))).of_chans rfl, ?_⟩
      exact (((setChan_adds (OP Q) c _ _).trans (noteClose_adds _ _ _)).emit_trans _ hok).emit_trans _ hfn

theorem dispatchWaiting_oinv {Q : Bunch → Prop} (fuel : Nat) : ∀ (c : Conn) (ch : Nat), OInv Q c →
    OInv Q (Conn.dispatchWaiting fuel c ch) ∧ Adds (OP Q) c (Conn.dispatchWaiting fuel c ch) := by
  induction fuel with
  | zero => intro c ch h; exact ⟨h, Adds.refl _ _⟩
  | succ f ih =>
    intro c ch h
    unfold Conn.dispatchWaiting
    split
    · exact ⟨h, Adds.refl _ _⟩
    · rename_i x hx
      have hq := h ch x hx
      split
      · exact ⟨h, Adds.refl _ _⟩
      · rename_i b rest hrec
        split
        · exact ⟨h, Adds.refl _ _⟩
        · dsimp only
          have hb : Q b := hq.1 b (by rw [hrec]; exact List.mem_cons_self)
          have g1 : OInv Q (c.setChan ch { x with inRec := rest }) :=
            setChan_oinv c ch _ h ⟨fun q hq' => hq.1 q (by rw [hrec]; exact List.mem_cons_of_mem _ hq'), hq.2⟩
          obtain ⟨r1, r2⟩ := receivedNextBunch_oinv _ b g1 hb
          obtain ⟨i1, i2⟩ := ih _ ch r1
          exact ⟨i1, ((setChan_adds _ c ch _).trans r2).trans i2⟩

theorem createChan_oinv {Q : Bunch → Prop} (c : Conn) (ch : Nat) (h : OInv Q c) : OInv Q (c.createChan ch) := by
  unfold Conn.createChan
  dsimp only
  refine setChan_oinv _ _ _ ?_ ⟨by intro q hq; simp at hq, by intro q hq; simp at hq⟩
  split
  · exact h.of_chans rfl
  · split
    · exact h.of_chans rfl
    · exact h.of_chans rfl

theorem getOrCreateChan_oinv {Q : Bunch → Prop} (c : Conn) (b : Bunch) (inc : Bool) (h : OInv Q c) :
    OInv Q (c.getOrCreateChan b inc).1 ∧ ∀ x, (c.getOrCreateChan b inc).2 = some x → ChanQ Q x := by
  unfold Conn.getOrCreateChan
  split
  · rename_i x hx
    exact ⟨h, fun y hy => by simp at hy; rw [← hy]; exact h _ x hx⟩
  · split
    · have hc := createChan_oinv c b.chIndex h
      exact ⟨hc, fun y hy => hc _ y hy⟩
    · exact ⟨h, fun y hy => by simp at hy⟩

theorem getOrCreateChan_adds' {P : Event → Prop} (ha : ∀ k, P (.alloc k)) (hr : ∀ k, P (.realloc k)) (c : Conn) (b : Bunch) (inc : Bool) :
    Adds P c (c.getOrCreateChan b inc).1 := by
  unfold Conn.getOrCreateChan
  split
  · exact Adds.refl _ _
  · split
    · unfold Conn.createChan
      dsimp only
      refine Adds.trans ?_ (setChan_adds _ _ _ _)
      split
      · exact Adds.emit _ _ (ha _)
      · split
        · exact (Adds.emit c _ (ha .chan)).trans (Adds.emit _ _ (ha _))
        · exact (Adds.emit c _ (ha .chan)).trans (Adds.emit _ _ (hr _))
    · exact Adds.refl _ _

theorem processBunch_oinv {Q : Bunch → Prop} (c : Conn) (x : Channel) (b : Bunch) (h : OInv Q c) (hx : ChanQ Q x) (hb : Q b) :
    OInv Q (c.processBunch x b).1 ∧ Adds (OP Q) c (c.processBunch x b).1 := by
  have hf : ∀ k, OP Q (.free k) := fun k => oP_of_not_recv Q _ rfl
  unfold Conn.processBunch
  split
  · exact ⟨h.of_chans rfl, Adds.emit _ _ (hf _)⟩
  · split
    · split
      · exact ⟨h.of_chans rfl, Adds.emit _ _ (hf _)⟩
      · split
        · rename_i q hq
          refine ⟨setChan_oinv _ _ _ h ⟨?_, hx.2⟩, setChan_adds _ _ _ _⟩
          intro y hy
          rcases enqueue_mem' b x.inRec q hq y hy with rfl | hy
          · exact hb
          · exact hx.1 y hy
        · exact ⟨h.of_chans rfl, Adds.emit _ _ (hf _)⟩
    · exact receivedNextBunch_oinv _ _ h hb

/-- `ReceivedRawBunch`, provided whatever it decodes from these bits satisfies `Q` -/
theorem receivedRawBunch_oinv {Q : Bunch → Prop} (hQ : QStable Q) (c : Conn) (bits : Bits) (h : OInv Q c)
    (hdec : ∀ b rest, decodeBunch bits = .ok b rest → Q b) :
    OInv Q (c.receivedRawBunch bits).1 ∧ Adds (OP Q) c (c.receivedRawBunch bits).1 := by
  have ha : ∀ k, OP Q (.alloc k) := fun k => oP_of_not_recv Q _ rfl
  have hf : ∀ k, OP Q (.free k) := fun k => oP_of_not_recv Q _ rfl
  have hr : ∀ k, OP Q (.realloc k) := fun k => oP_of_not_recv Q _ rfl
  unfold Conn.receivedRawBunch
  dsimp only
  have g0 : OInv Q (c.emit (.alloc .node)) := h.of_chans rfl
  have a0 : Adds (OP Q) c (c.emit (.alloc .node)) := Adds.emit _ _ (ha _)
  split
  · exact ⟨(g0.of_chans (markClose_chans _ _) : OInv Q ((c.emit (.alloc .node)).markClose crBunchOverflow)).of_chans rfl,
      (a0.trans (markClose_adds _ _ _)).emit_trans _ (hf _)⟩
  · rename_i b rest hd
    have hb : Q b := hdec b rest hd
    split
    · exact ⟨(g0.of_chans (markClose_chans _ _) : OInv Q ((c.emit (.alloc .node)).markClose crBunchBadChannelIndex)).of_chans rfl,
        (a0.trans (markClose_adds _ _ _)).emit_trans _ (hf _)⟩
    · obtain ⟨g1, g2⟩ := getOrCreateChan_oinv (c.emit (.alloc .node)) { b with packetId := (c.emit (.alloc .node)).inPacketId } true g0
      have a1 : Adds (OP Q) c ((c.emit (.alloc .node)).getOrCreateChan { b with packetId := (c.emit (.alloc .node)).inPacketId } true).1 :=
        a0.trans (getOrCreateChan_adds' ha hr _ _ _)
      split
      · exact ⟨g1.of_chans rfl, a1.emit_trans _ (hf _)⟩
      · rename_i x hx
        have hb' : Q (absSeq ((c.emit (.alloc .node)).getOrCreateChan { b with packetId := (c.emit (.alloc .node)).inPacketId } true).1 x { b with packetId := (c.emit (.alloc .node)).inPacketId }) := by
          unfold absSeq
          split
          · rename_i hrel
            exact hQ.seq _ _ hrel (hQ.pid _ _ hb)
          · rename_i hrel
            split
            · exact hQ.useq _ _ (by simpa using hrel) (hQ.pid _ _ hb)
            · exact hQ.pid _ _ hb
        obtain ⟨p1, p2⟩ := processBunch_oinv _ x _ g1 (g2 x hx) hb'
        obtain ⟨d1, d2⟩ := dispatchWaiting_oinv _ _ _ p1
        exact ⟨d1, (a1.trans p2).trans d2⟩

/-! ### a packet body that is a concatenation of encodings -/

def encB (b : Bunch) : Bits := (encodeBunch b).getD []

def bodyOf (bs : List Bunch) : Bits := bs.flatMap encB

theorem rawBunch_rest (c : Conn) (bits : Bits) (d : Bunch) (rest : Bits) (h : decodeBunch bits = .ok d rest) : (c.receivedRawBunch bits).2.1 = rest := by
  unfold Conn.receivedRawBunch
  simp only [h]
  split
  · rfl
  · split <;> rfl

theorem bunchLoop_body {Q : Bunch → Prop} (hQ : QStable Q) (bs : List Bunch) : ∀ (fuel : Nat) (c : Conn) (skip : Bool), bs.length ≤ fuel →
    (∀ b ∈ bs, WFBunch b ∧ Q (wireView b)) → OInv Q c →
    OInv Q (Conn.bunchLoop fuel c (bodyOf bs) skip).1 ∧ Adds (OP Q) c (Conn.bunchLoop fuel c (bodyOf bs) skip).1 := by
  induction bs with
  | nil =>
    intro fuel c skip _ _ h
    cases fuel with
    | zero => exact ⟨h, Adds.refl _ _⟩
    | succ f => unfold Conn.bunchLoop; simp [bodyOf]; exact ⟨h, Adds.refl _ _⟩
  | cons b tl ih =>
    intro fuel c skip hf hall h
    cases fuel with
    | zero => simp at hf
    | succ f =>
      obtain ⟨hwf, hq⟩ := hall b List.mem_cons_self
      obtain ⟨bits, henc, hdec⟩ := Props.C11.decode_encode b hwf (bodyOf tl)
      have hne : bits ≠ [] := Props.C11.encode_nonempty b bits henc
      have hbody : bodyOf (b :: tl) = bits ++ bodyOf tl := by
        simp [bodyOf, encB, henc]
      rw [hbody]
      unfold Conn.bunchLoop
      have hnonempty : (bits ++ bodyOf tl).isEmpty = false := by cases bits <;> simp_all
      simp only [hnonempty, Bool.false_eq_true, if_false]
      obtain ⟨r1, r2⟩ := receivedRawBunch_oinv hQ c (bits ++ bodyOf tl) h (by
        intro d rest hd
        rw [hdec] at hd
        cases hd
        exact hq)
      have hrest := rawBunch_rest c (bits ++ bodyOf tl) _ _ hdec
      generalize c.receivedRawBunch (bits ++ bodyOf tl) = r at r1 r2 hrest ⊢
      obtain ⟨c', rest', s'⟩ := r
      simp only at r1 r2 hrest ⊢
      subst hrest
      obtain ⟨i1, i2⟩ := ih f c' (skip || s') (by simp at hf; omega) (fun x hx => hall x (List.mem_cons_of_mem _ hx)) r1
      exact ⟨i1, r2.trans i2⟩

theorem oP_notif (Q : Bunch → Prop) : NotifPred (OP Q) :=
  ⟨fun _ _ => oP_of_not_recv Q _ rfl, fun ev h => oP_of_not_recv Q ev (isOut_not_recv ev h), fun ev h => oP_of_not_recv Q ev (isFreeNode_not_recv ev h)⟩

/-- **`ReceivedPacket`**: if the body behind the packet header is a concatenation of encodings of well-formed bunches that satisfy `Q`,
the invariant is kept and every callback made carries only bunches satisfying `Q` -/
theorem receivedPacket_oinv {Q : Bunch → Prop} (hQ : QStable Q) (e : Env) (c : Conn) (bits : Bits) (h : OInv Q c)
    (hbody : ∀ hd rest, decodePacketHeader bits = .ok (hd, rest) → ∃ bs, rest = bodyOf bs ∧ ∀ b ∈ bs, WFBunch b ∧ Q (wireView b)) :
    OInv Q (c.receivedPacket e bits).1 ∧ Adds (OP Q) c (c.receivedPacket e bits).1 := by
  unfold Conn.receivedPacket
  split
  · exact ⟨h.of_chans (markClose_chans _ _), markClose_adds _ _ _⟩
  · rename_i hd rest hdec
    obtain ⟨bs, hrest, hall⟩ := hbody hd rest hdec
    dsimp only
    split
    · exact ⟨h, Adds.refl _ _⟩
    · have g1 : OInv Q ({ c with inPacketId := c.inPacketId + c.notify.deltaSeq hd } : Conn) := h.of_chans rfl
      have g2 := g1.of_rsame (notifyUpdate_rsame e _ hd)
      have a2 : Adds (OP Q) c (({ c with inPacketId := c.inPacketId + c.notify.deltaSeq hd } : Conn).notifyUpdate e hd) :=
        (Adds.of_log_eq rfl : Adds (OP Q) c _).trans (notifyUpdate_adds_gen (oP_notif Q) e _ hd)
      have hlen : bs.length ≤ rest.length + 1 := by
        -- every encoding is non-empty, so there are at most as many bunches as bits
        have : ∀ l : List Bunch, (∀ b ∈ l, WFBunch b) → l.length ≤ (bodyOf l).length := by
          intro l
          induction l with
          | nil => intro _; simp [bodyOf]
          | cons b tl ih =>
            intro hl
            obtain ⟨bits', henc, _⟩ := Props.C11.decode_encode b (hl b List.mem_cons_self) []
            have hne := Props.C11.encode_nonempty b bits' henc
            have := ih (fun x hx => hl x (List.mem_cons_of_mem _ hx))
            have hb : bodyOf (b :: tl) = bits' ++ bodyOf tl := by simp [bodyOf, encB, henc]
            rw [hb]
            have : 0 < bits'.length := by cases bits' <;> simp_all
            simp only [List.length_cons, List.length_append]; omega
        have := this bs (fun b hb => (hall b hb).1)
        rw [hrest]; omega
      rw [hrest] at hlen ⊢
      obtain ⟨b1, b2⟩ := bunchLoop_body hQ bs ((bodyOf bs).length + 1) _ false hlen hall g2
      generalize Conn.bunchLoop ((bodyOf bs).length + 1) (({ c with inPacketId := c.inPacketId + c.notify.deltaSeq hd } : Conn).notifyUpdate e hd) (bodyOf bs) false = r at b1 b2 ⊢
      obtain ⟨c3, rest', skip⟩ := r
      exact ⟨b1.of_chans rfl, (a2.trans b2).trans (Adds.of_log_eq rfl)⟩

/-! ### the send API leaves the receive side alone -/

theorem flush_oinv {Q : Bunch → Prop} (e : Env) (c : Conn) (h : OInv Q c) : OInv Q (c.flush e) ∧ Adds (OP Q) c (c.flush e) :=
  ⟨h.of_chans (flush_chans e c), (flush_adds e c).mono (fun ev hev => oP_of_not_recv Q ev (isOut_not_recv ev hev))⟩

theorem sendBunch_oinv {Q : Bunch → Prop} (e : Env) (c : Conn) (b : Bunch) (h : OInv Q c) :
    OInv Q (c.sendBunch e b).1 ∧ Adds (OP Q) c (c.sendBunch e b).1 := by
  have outQ : ∀ ev, isOut ev → OP Q ev := fun ev hev => oP_of_not_recv Q ev (isOut_not_recv ev hev)
  have hraw : OInv Q (c.sendRaw e b).1 ∧ Adds (OP Q) c (c.sendRaw e b).1 := by
    unfold Conn.sendRaw
    split
    · exact ⟨h, Adds.refl _ _⟩
    · unfold Conn.sendCommit
      dsimp only
      have g1 : OInv Q ((c.getOrCreateChan b false).1.noteClose b) := (getOrCreateChan_oinv c b false h).1.of_rsame (noteClose_rsame _ b)
      have a1 : Adds (OP Q) c ((c.getOrCreateChan b false).1.noteClose b) :=
        (getOrCreateChan_adds' (fun k => oP_of_not_recv Q _ rfl) (fun k => oP_of_not_recv Q _ rfl) c b false).trans (noteClose_adds _ _ b)
      generalize (c.getOrCreateChan b false).1.noteClose b = c1 at g1 a1 ⊢
      split
      · exact ⟨g1, a1⟩
      · rename_i x hx
        generalize (if b.bReliable = true then x.outReliable + 1 else 0 : Int) = seq
        generalize (if b.bReliable = true then (encodeBunchHeader { b with chSeq := seq }).getD _ else _) = hdr
        have g2 : OInv Q (if b.bReliable = true then c1.setChan b.chIndex { x with outReliable := seq } else c1) ∧
            Adds (OP Q) c1 (if b.bReliable = true then c1.setChan b.chIndex { x with outReliable := seq } else c1) := by
          split
          · exact ⟨setChan_oinv c1 _ _ g1 (g1 _ x hx), setChan_adds _ _ _ _⟩
          · exact ⟨g1, Adds.refl _ _⟩
        generalize (if b.bReliable = true then c1.setChan b.chIndex { x with outReliable := seq } else c1) = c2 at g2 ⊢
        have g4 : OInv Q ((c2.prepareWrite e (hdr.length + b.data.length)).writeInternal e (hdr ++ b.data)).1 :=
          (g2.1.of_chans (prepareWrite_chans e c2 _)).of_chans (writeInternal_chans e _ _)
        have a4 : Adds (OP Q) c ((c2.prepareWrite e (hdr.length + b.data.length)).writeInternal e (hdr ++ b.data)).1 :=
          ((a1.trans g2.2).trans ((prepareWrite_adds e c2 _).mono outQ)).trans ((writeInternal_adds e _ _).mono outQ)
        split
        · have g5 : OInv Q (((c2.prepareWrite e (hdr.length + b.data.length)).writeInternal e (hdr ++ b.data)).1.emit (.alloc .node)) := g4.of_chans rfl
          refine ⟨g5.of_rsame (addOutRec_rsame _ _ _ _), ?_⟩
          refine Adds.trans (a4.emit_trans (.alloc .node) (oP_of_not_recv Q _ rfl)) ?_
          apply Adds.of_log_eq
          unfold Conn.addOutRec
          split <;> rfl
        · exact ⟨g4, a4⟩
  unfold Conn.sendBunch
  generalize c.sendRaw e b = r at hraw ⊢
  obtain ⟨c', rr⟩ := r
  simp only at hraw ⊢
  split <;> exact hraw

end Utcp
