import Utcp.Lemmas.Partial
import Utcp.Lemmas.Keeps
import Utcp.Lemmas.RecvAdds
import Utcp.Lemmas.RecvOrder
/-!
# Every receive callback, in every history, carries a single non-partial bunch or one complete, well-shaped group

`GInv c`: the reassembly list of every open channel has the shape of a group under construction (`Partial.Shape`).
`GroupP ev`: if `ev` is a receive callback, its argument is a single non-partial bunch or a complete group (shape, final last
fragment, at most 256 fragments).  One lemma per function of the receive path: it keeps `GInv` and only logs events satisfying
`GroupP`.
-/
namespace Utcp
open Gen Partial

def GroupOK (g : List Bunch) : Prop :=
  (∃ b, g = [b] ∧ b.bPartial = false) ∨
  (Shape g ∧ g ≠ [] ∧ g.getLast?.map (·.bPartialFinal) = some true ∧ g.length ≤ 256)

def GroupP (ev : Event) : Prop := ∀ g, ev = .recv g → GroupOK g

def GInv (c : Conn) : Prop := ∀ ch x, c.getChan ch = some x → Shape x.inPartial

theorem groupP_of_not_recv (ev : Event) (h : isRecv ev = false) : GroupP ev := by
  intro g hg; subst hg; simp [isRecv] at h

theorem GInv.of_chans {c c' : Conn} (h : GInv c) (hc : c'.chans = c.chans) : GInv c' := by
  intro ch x hx
  exact h ch x (by unfold Conn.getChan at hx ⊢; rw [← hc]; exact hx)

theorem setChan_ginv (c : Conn) (ch : Nat) (x : Channel) (h : GInv c) (hx : Shape x.inPartial) : GInv (c.setChan ch x) := by
  intro ch' x' hx'
  by_cases he : ch' = ch
  · subst he; rw [getChan_setChan_self] at hx'; cases hx'; exact hx
  · rw [getChan_setChan_other _ _ _ _ he] at hx'; exact h ch' x' hx'

theorem getChan_shape (c : Conn) (ch : Nat) (x : Channel) (h : GInv c) (hg : c.getChan ch = some x) : Shape x.inPartial := h ch x hg

theorem freeNodes_chans' (c : Conn) (k : Nat) : (c.freeNodes k).chans = c.chans := by
  unfold Conn.freeNodes
  have : ∀ (l : List Nat) (c : Conn), (l.foldl (fun c _ => c.emit (.free .node)) c).chans = c.chans := by
    intro l
    induction l with
    | nil => intro c; rfl
    | cons a rest ih => intro c; exact ih _
  exact this _ _

theorem noteClose_ginv (c : Conn) (b : Bunch) (h : GInv c) : GInv (c.noteClose b) := by
  unfold Conn.noteClose
  split
  · exact h
  · dsimp only
    have hc : GInv (if (b.chIndex == 0) = true then c.markClose crControlChannelClose else c) := by
      split
      · exact h.of_chans (markClose_chans _ _)
      · exact h
    generalize (if (b.chIndex == 0) = true then c.markClose crControlChannelClose else c) = c' at *
    split
    · exact hc
    · rename_i x hx
      refine (setChan_ginv c' _ _ hc ?_).of_chans rfl
      have := getChan_shape c' _ x hc hx
      unfold Channel.markClosed; split <;> exact this

theorem foldl_noteClose_ginv (g : List Bunch) : ∀ c : Conn, GInv c → GInv (g.foldl Conn.noteClose c) := by
  induction g with
  | nil => intro c h; exact h
  | cons b rest ih => intro c h; exact ih _ (noteClose_ginv c b h)

theorem mergePartial_chans (c : Conn) (x : Channel) (b : Bunch) : (mergePartial c x b).1.chans = c.chans := by
  unfold mergePartial mergeInitial mergeNext
  split
  · split
    · rfl
    · split
      · rfl
      · exact freeNodes_chans' _ _
  · split
    · rfl
    · split
      · rfl
      · split
        · rfl
        · exact freeNodes_chans' _ _

theorem receivedNextBunch_ginv (c : Conn) (b : Bunch) (h : GInv c) :
    GInv (c.receivedNextBunch b).1 ∧ Adds GroupP c (c.receivedNextBunch b).1 := by
  have hfn : GroupP (.free .node) := groupP_of_not_recv _ rfl
  have hfree : ∀ (c : Conn) k, Adds GroupP c (c.freeNodes k) := fun c k =>
    (freeNodes_adds c k).mono (fun ev hev => groupP_of_not_recv ev (by cases ev <;> simp_all [isFreeNode, isRecv]))
  unfold Conn.receivedNextBunch
  split
  · exact ⟨h.of_chans rfl, Adds.emit _ _ hfn⟩
  · rename_i x0 hx0
    have hs0 := getChan_shape c _ x0 h hx0
    dsimp only
    have hs1 : Shape (if b.bReliable = true then { x0 with inReliable := b.chSeq } else x0).inPartial := by
      split <;> exact hs0
    generalize (if b.bReliable = true then { x0 with inReliable := b.chSeq } else x0) = x1 at hs1 ⊢
    split
    · rename_i hpart
      have hms := merge_shape c x1 b hpart hs1
      have hmc := mergePartial_chans c x1 b
      have hma := (mergePartial_adds c x1 b).mono (fun ev hev => groupP_of_not_recv ev (by cases ev <;> simp_all [isFreeNode, isRecv]))
      have hav := available_iff c x1 b
      generalize mergePartial c x1 b = r at hms hmc hma hav ⊢
      obtain ⟨c1, x2, res, skip⟩ := r
      simp only at hms hmc hma hav ⊢
      have g2 : GInv (c1.setChan b.chIndex x2) := setChan_ginv _ _ _ (h.of_chans hmc) hms
      have a2 : Adds GroupP c (c1.setChan b.chIndex x2) := hma.trans (setChan_adds _ _ _ _)
      cases res with
      | succeed => exact ⟨g2, a2⟩
      | fatal => exact ⟨g2.of_chans rfl, a2.emit_trans _ hfn⟩
      | failed => exact ⟨g2.of_chans rfl, a2.emit_trans _ hfn⟩
      | available =>
        simp only
        obtain ⟨_, hfin, hgrp, hne⟩ := hav rfl
        split
        · refine ⟨((setChan_ginv _ b.chIndex { x2 with inPartial := [] } (g2.of_chans (freeNodes_chans' _ _)) (by simp [Shape]))).of_chans (markClose_chans _ _), ?_⟩
          exact (a2.trans (hfree _ _)).trans ((setChan_adds _ _ _ _).trans (markClose_adds _ _ _))
        · rename_i hlen
          have hok : GroupP (.recv x2.inPartial) := by
            intro g hg; cases hg
            right
            refine ⟨hms, ?_, ?_, ?_⟩
            · rw [hgrp]; simp
            · rw [hgrp]; simp [hfin]
            · have : maxGroup = 256 := by decide
              rw [this] at hlen; omega
          have g3 : GInv (((x2.inPartial.foldl Conn.noteClose (c1.setChan b.chIndex x2)).emit (.recv x2.inPartial)).freeNodes x2.inPartial.length) :=
            ((foldl_noteClose_ginv _ _ g2).of_chans rfl : GInv ((x2.inPartial.foldl Conn.noteClose (c1.setChan b.chIndex x2)).emit (.recv x2.inPartial))).of_chans (freeNodes_chans' _ _)
          have a3 : Adds GroupP c (((x2.inPartial.foldl Conn.noteClose (c1.setChan b.chIndex x2)).emit (.recv x2.inPartial)).freeNodes x2.inPartial.length) :=
            ((a2.trans (foldl_noteClose_adds GroupP x2.inPartial _)).emit_trans _ hok).trans (hfree _ _)
          split
          · exact ⟨g3, a3⟩
          · rename_i x5 hx5
            exact ⟨setChan_ginv _ _ _ g3 (by simp [Shape]), a3.trans (setChan_adds _ _ _ _)⟩
    · rename_i hnp
      have hok : GroupP (.recv [b]) := by
        intro g hg; cases hg
        left; exact ⟨b, rfl, by simpa using hnp⟩
      have g1 : GInv (c.setChan b.chIndex x1) := setChan_ginv _ _ _ h hs1
      refine ⟨((noteClose_ginv _ b g1).of_chans rfl : GInv (((c.setChan b.chIndex x1).noteClose b).emit (.recv [b]))).of_chans rfl, ?_⟩
      exact (((setChan_adds GroupP c _ _).trans (noteClose_adds _ _ _)).emit_trans _ hok).emit_trans _ hfn

theorem dispatchWaiting_ginv (fuel : Nat) : ∀ (c : Conn) (ch : Nat), GInv c →
    GInv (Conn.dispatchWaiting fuel c ch) ∧ Adds GroupP c (Conn.dispatchWaiting fuel c ch) := by
  induction fuel with
  | zero => intro c ch h; exact ⟨h, Adds.refl _ _⟩
  | succ f ih =>
    intro c ch h
    unfold Conn.dispatchWaiting
    split
    · exact ⟨h, Adds.refl _ _⟩
    · rename_i x hx
      split
      · exact ⟨h, Adds.refl _ _⟩
      · rename_i b rest hq
        split
        · exact ⟨h, Adds.refl _ _⟩
        · dsimp only
          have g1 : GInv (c.setChan ch { x with inRec := rest }) := setChan_ginv c ch _ h (getChan_shape c ch x h hx)
          obtain ⟨r1, r2⟩ := receivedNextBunch_ginv _ b g1
          obtain ⟨i1, i2⟩ := ih _ ch r1
          exact ⟨i1, ((setChan_adds _ c ch _).trans r2).trans i2⟩

theorem createChan_ginv (c : Conn) (ch : Nat) (h : GInv c) : GInv (c.createChan ch) ∧ Adds GroupP c (c.createChan ch) := by
  have ha : ∀ k, GroupP (.alloc k) := fun k => groupP_of_not_recv _ rfl
  have hr : ∀ k, GroupP (.realloc k) := fun k => groupP_of_not_recv _ rfl
  unfold Conn.createChan
  dsimp only
  constructor
  · refine setChan_ginv _ _ _ ?_ (by simp [Shape])
    split
    · exact h.of_chans rfl
    · split
      · exact h.of_chans rfl
      · exact h.of_chans rfl
  · refine Adds.trans ?_ (setChan_adds _ _ _ _)
    split
    · exact Adds.emit _ _ (ha _)
    · split
      · exact (Adds.emit c _ (ha .chan)).trans (Adds.emit _ _ (ha _))
      · exact (Adds.emit c _ (ha .chan)).trans (Adds.emit _ _ (hr _))

theorem getOrCreateChan_ginv (c : Conn) (b : Bunch) (inc : Bool) (h : GInv c) :
    GInv (c.getOrCreateChan b inc).1 ∧ Adds GroupP c (c.getOrCreateChan b inc).1 ∧ ∀ x, (c.getOrCreateChan b inc).2 = some x → Shape x.inPartial := by
  unfold Conn.getOrCreateChan
  split
  · rename_i x hx
    exact ⟨h, Adds.refl _ _, fun y hy => by simp at hy; rw [← hy]; exact getChan_shape c _ x h hx⟩
  · split
    · obtain ⟨c1, c2⟩ := createChan_ginv c b.chIndex h
      exact ⟨c1, c2, fun y hy => getChan_shape _ _ y c1 hy⟩
    · exact ⟨h, Adds.refl _ _, fun y hy => by simp at hy⟩

theorem processBunch_ginv (c : Conn) (x : Channel) (b : Bunch) (h : GInv c) (hx : Shape x.inPartial) :
    GInv (c.processBunch x b).1 ∧ Adds GroupP c (c.processBunch x b).1 := by
  have hf : ∀ k, GroupP (.free k) := fun k => groupP_of_not_recv _ rfl
  unfold Conn.processBunch
  split
  · exact ⟨h.of_chans rfl, Adds.emit _ _ (hf _)⟩
  · split
    · split
      · exact ⟨h.of_chans rfl, Adds.emit _ _ (hf _)⟩
      · split
        · exact ⟨setChan_ginv _ _ _ h hx, setChan_adds _ _ _ _⟩
        · exact ⟨h.of_chans rfl, Adds.emit _ _ (hf _)⟩
    · exact receivedNextBunch_ginv _ _ h

theorem receivedRawBunch_ginv (c : Conn) (bits : Bits) (h : GInv c) :
    GInv (c.receivedRawBunch bits).1 ∧ Adds GroupP c (c.receivedRawBunch bits).1 := by
  have ha : ∀ k, GroupP (.alloc k) := fun k => groupP_of_not_recv _ rfl
  have hf : ∀ k, GroupP (.free k) := fun k => groupP_of_not_recv _ rfl
  unfold Conn.receivedRawBunch
  dsimp only
  have g0 : GInv (c.emit (.alloc .node)) := h.of_chans rfl
  have a0 : Adds GroupP c (c.emit (.alloc .node)) := Adds.emit _ _ (ha _)
  split
  · exact ⟨(g0.of_chans (markClose_chans _ _) : GInv ((c.emit (.alloc .node)).markClose crBunchOverflow)).of_chans rfl,
      (a0.trans (markClose_adds _ _ _)).emit_trans _ (hf _)⟩
  · split
    · exact ⟨(g0.of_chans (markClose_chans _ _) : GInv ((c.emit (.alloc .node)).markClose crBunchBadChannelIndex)).of_chans rfl,
        (a0.trans (markClose_adds _ _ _)).emit_trans _ (hf _)⟩
    · rename_i b rest hdec hch
      obtain ⟨g1, g2, g3⟩ := getOrCreateChan_ginv (c.emit (.alloc .node)) { b with packetId := (c.emit (.alloc .node)).inPacketId } true g0
      split
      · exact ⟨g1.of_chans rfl, (a0.trans g2).emit_trans _ (hf _)⟩
      · rename_i x hx
        obtain ⟨p1, p2⟩ := processBunch_ginv _ x _ g1 (g3 x hx)
        obtain ⟨d1, d2⟩ := dispatchWaiting_ginv _ _ _ p1
        exact ⟨d1, ((a0.trans g2).trans p2).trans d2⟩

theorem bunchLoop_ginv (fuel : Nat) : ∀ (c : Conn) (bits : Bits) (skip : Bool), GInv c →
    GInv (Conn.bunchLoop fuel c bits skip).1 ∧ Adds GroupP c (Conn.bunchLoop fuel c bits skip).1 := by
  induction fuel with
  | zero => intro c bits skip h; exact ⟨h, Adds.refl _ _⟩
  | succ f ih =>
    intro c bits skip h
    unfold Conn.bunchLoop
    split
    · exact ⟨h, Adds.refl _ _⟩
    · obtain ⟨r1, r2⟩ := receivedRawBunch_ginv c bits h
      obtain ⟨i1, i2⟩ := ih _ _ _ r1
      exact ⟨i1, r2.trans i2⟩

/-! ### the rest of the library -/

theorem GInv.of_rsame {c c' : Conn} (h : GInv c) (hs : RSame c c') : GInv c' := by
  intro ch x' hx'
  have := hs.chan ch
  rw [hx'] at this
  cases hx : c.getChan ch with
  | none => rw [hx] at this; simp at this
  | some x =>
    rw [hx] at this
    simp only [Option.map_some, Option.some.injEq] at this
    have h1 : x'.inPartial = x.inPartial := congrArg (·.1) this
    rw [h1]; exact h ch x hx

/-- any event predicate that holds of delivery statuses, datagrams and node releases -/
structure NotifPred (P : Event → Prop) : Prop where
  status : ∀ p a, P (.status p a)
  out : ∀ ev, isOut ev → P ev
  freeNode : ∀ ev, isFreeNode ev → P ev

theorem handleNotification_adds_gen {P : Event → Prop} (hP : NotifPred P) (e : Env) (c : Conn) (v : Int × Bool) : Adds P c (c.handleNotification e v) := by
  unfold Conn.handleNotification
  dsimp only
  have h0 : Adds P c { c with lastNotified := c.lastNotified + 1 } := Adds.of_log_eq rfl
  split
  · exact h0
  · split
    · refine Adds.emit_trans ?_ _ (hP.status _ _)
      exact (Adds.of_log_eq rfl : Adds P c _).trans ((onAckChans_adds _ _ _).mono hP.freeNode)
    · refine Adds.emit_trans ?_ _ (hP.status _ _)
      exact h0.trans ((onNakChans_adds e _ _ _).mono hP.out)

theorem notifyUpdate_adds_gen {P : Event → Prop} (hP : NotifPred P) (e : Env) (c : Conn) (h : NotifHeader) : Adds P c (c.notifyUpdate e h) := by
  unfold Conn.notifyUpdate
  dsimp only
  refine Adds.trans ?_ (Adds.of_log_eq rfl)
  split
  · refine Adds.trans ?_ (Adds.of_log_eq rfl)
    have : ∀ (vs : List (Int × Bool)) (c : Conn), Adds P c (vs.foldl (Conn.handleNotification e) c) := by
      intro vs
      induction vs with
      | nil => intro c; exact Adds.refl _ _
      | cons v rest ih => intro c; exact (handleNotification_adds_gen hP e c v).trans (ih _)
    exact (Adds.of_log_eq rfl : Adds P c _).trans (this _ _)
  · exact Adds.refl _ _

theorem groupP_notif : NotifPred GroupP :=
  ⟨fun _ _ => groupP_of_not_recv _ rfl, fun ev h => groupP_of_not_recv ev (isOut_not_recv ev h), fun ev h => groupP_of_not_recv ev (isFreeNode_not_recv ev h)⟩

/-- **`ReceivedPacket` on any bit string**: the reassembly lists keep their shape and every callback carries a single bunch or
one complete group -/
theorem receivedPacket_ginv (e : Env) (c : Conn) (bits : Bits) (h : GInv c) :
    GInv (c.receivedPacket e bits).1 ∧ Adds GroupP c (c.receivedPacket e bits).1 := by
  unfold Conn.receivedPacket
  split
  · exact ⟨h.of_chans (markClose_chans _ _), markClose_adds _ _ _⟩
  · rename_i hd rest hdec
    dsimp only
    split
    · exact ⟨h, Adds.refl _ _⟩
    · have g1 : GInv ({ c with inPacketId := c.inPacketId + c.notify.deltaSeq hd } : Conn) := h.of_chans rfl
      have g2 := g1.of_rsame (notifyUpdate_rsame e _ hd)
      have a2 : Adds GroupP c (({ c with inPacketId := c.inPacketId + c.notify.deltaSeq hd } : Conn).notifyUpdate e hd) :=
        (Adds.of_log_eq rfl : Adds GroupP c _).trans (notifyUpdate_adds_gen groupP_notif e _ hd)
      obtain ⟨b1, b2⟩ := bunchLoop_ginv (rest.length + 1) _ rest false g2
      generalize Conn.bunchLoop (rest.length + 1) (({ c with inPacketId := c.inPacketId + c.notify.deltaSeq hd } : Conn).notifyUpdate e hd) rest false = r at b1 b2 ⊢
      obtain ⟨c3, rest', skip⟩ := r
      exact ⟨b1.of_chans rfl, (a2.trans b2).trans (Adds.of_log_eq rfl)⟩

theorem outP (ev : Event) (h : isOut ev) : GroupP ev := groupP_of_not_recv ev (isOut_not_recv ev h)

theorem sendCommit_ginv (e : Env) (c : Conn) (b : Bunch) (h0 : Bits) (h : GInv c) :
    GInv (c.sendCommit e b h0).1 ∧ Adds GroupP c (c.sendCommit e b h0).1 := by
  unfold Conn.sendCommit
  dsimp only
  obtain ⟨g0, a0, _⟩ := getOrCreateChan_ginv c b false h
  have g1 : GInv ((c.getOrCreateChan b false).1.noteClose b) := noteClose_ginv _ b g0
  have a1 : Adds GroupP c ((c.getOrCreateChan b false).1.noteClose b) := a0.trans (noteClose_adds _ _ _)
  generalize (c.getOrCreateChan b false).1.noteClose b = c1 at g1 a1 ⊢
  split
  · exact ⟨g1, a1⟩
  · rename_i x hx
    generalize (if b.bReliable = true then x.outReliable + 1 else 0 : Int) = seq
    generalize (if b.bReliable = true then (encodeBunchHeader { b with chSeq := seq }).getD h0 else h0) = hdr
    have g2 : GInv (if b.bReliable = true then c1.setChan b.chIndex { x with outReliable := seq } else c1) := by
      split
      · exact setChan_ginv c1 _ _ g1 (getChan_shape c1 _ x g1 hx)
      · exact g1
    have a2 : Adds GroupP c1 (if b.bReliable = true then c1.setChan b.chIndex { x with outReliable := seq } else c1) := by
      split
      · exact setChan_adds _ _ _ _
      · exact Adds.refl _ _
    generalize (if b.bReliable = true then c1.setChan b.chIndex { x with outReliable := seq } else c1) = c2 at g2 a2 ⊢
    have g3 : GInv (c2.prepareWrite e (hdr.length + b.data.length)) := g2.of_chans (prepareWrite_chans e c2 _)
    have g4 : GInv ((c2.prepareWrite e (hdr.length + b.data.length)).writeInternal e (hdr ++ b.data)).1 := g3.of_chans (writeInternal_chans e _ _)
    have a4 : Adds GroupP c ((c2.prepareWrite e (hdr.length + b.data.length)).writeInternal e (hdr ++ b.data)).1 :=
      ((a1.trans a2).trans ((prepareWrite_adds e c2 _).mono outP)).trans ((writeInternal_adds e _ _).mono outP)
    split
    · have g5 : GInv (((c2.prepareWrite e (hdr.length + b.data.length)).writeInternal e (hdr ++ b.data)).1.emit (.alloc .node)) := g4.of_chans rfl
      refine ⟨g5.of_rsame (addOutRec_rsame _ _ _ _), ?_⟩
      refine Adds.trans (a4.emit_trans (.alloc .node) (groupP_of_not_recv _ rfl)) ?_
      apply Adds.of_log_eq
      unfold Conn.addOutRec
      split <;> rfl
    · exact ⟨g4, a4⟩

theorem sendBunch_ginv (e : Env) (c : Conn) (b : Bunch) (h : GInv c) : GInv (c.sendBunch e b).1 ∧ Adds GroupP c (c.sendBunch e b).1 := by
  have hraw : GInv (c.sendRaw e b).1 ∧ Adds GroupP c (c.sendRaw e b).1 := by
    unfold Conn.sendRaw
    split
    · exact ⟨h, Adds.refl _ _⟩
    · exact sendCommit_ginv e c b _ h
  unfold Conn.sendBunch
  generalize c.sendRaw e b = r at hraw ⊢
  obtain ⟨c', rr⟩ := r
  simp only at hraw ⊢
  split <;> exact hraw

theorem flush_ginv (e : Env) (c : Conn) (h : GInv c) : GInv (c.flush e) ∧ Adds GroupP c (c.flush e) :=
  ⟨h.of_chans (flush_chans e c), (flush_adds e c).mono outP⟩

end Utcp
