import Utcp.Large
import Utcp.Sha1
import Utcp.ByteScript
/-!
# The scenario interpreter (line protocol shared with `harness/drv.cpp`)

One op per line in, the echo of the op and the events it caused out.  See `/verif/PROTOCOL.md`.
-/
namespace Utcp
open Gen

inductive Node where
  | conn (w : Wrapped)
  | lsn (l : Listener Float)

structure EpRec where
  node : Node
  outbox : Array (List UInt8) := #[]
  cur : Nat := 0

structure World where
  env : Env := {}
  rng : Rng := {}
  clientCounter : Nat := 0
  eps : List (Nat × EpRec) := []          -- ascending id
  onaccept : List ((Nat × String) × Nat) := []
  routes : List ((Nat × String) × Nat) := []
  maxDelivered : List ((Nat × Nat) × Nat) := []
  live : Nat := 0
  liveNodes : Nat := 0
  out : Array String := #[]

def World.say (w : World) (s : String) : World := { w with out := w.out.push s }

def World.getEp (w : World) (id : Nat) : Option EpRec := (w.eps.find? (·.1 == id)).map (·.2)

def insertEp (id : Nat) (r : EpRec) : List (Nat × EpRec) → List (Nat × EpRec)
  | [] => [(id, r)]
  | (k, v) :: rest => if id < k then (id, r) :: (k, v) :: rest else if id == k then (k, r) :: rest else (k, v) :: insertEp id r rest

def World.setEp (w : World) (id : Nat) (r : EpRec) : World := { w with eps := insertEp id r w.eps }

def World.noteDelivered (w : World) (dst src idx : Nat) : World :=
  match w.maxDelivered.find? (fun (p : (Nat × Nat) × Nat) => p.1 == (dst, src)) with
  | some (_, m) => if idx > m then { w with maxDelivered := ((dst, src), idx) :: w.maxDelivered.filter (fun p => p.1 != (dst, src)) } else w
  | none => { w with maxDelivered := ((dst, src), idx) :: w.maxDelivered }

def kindName : Kind → String
  | .node => "node" | .chan => "chan" | .chal => "chal" | .conn => "conn" | .lsn => "lsn" | .open_ => "open"

def boolDigit (b : Bool) : String := if b then "1" else "0"

def bunchFlags (b : Bunch) : Nat :=
  (if b.bOpen then 1 else 0) + (if b.bClose then 2 else 0) + (if b.bPaused then 4 else 0) + (if b.bReliable then 8 else 0)
  + (if b.bExports then 16 else 0) + (if b.bGuids then 32 else 0) + (if b.bPartial then 64 else 0)
  + (if b.bPartialInitial then 128 else 0) + (if b.bPartialFinal then 256 else 0)

def showBunch (b : Bunch) : String :=
  s!" | {b.chIndex} {bunchFlags b} {b.closeReason} {b.nameIndex} {b.chSeq} {b.packetId} {b.data.length} {hex64 (fnv64 (bitsToBytes b.data))}"

/-- print the events of endpoint `id` (oldest first), record datagrams in its outbox, track live blocks -/
def World.drain (w : World) (id : Nat) (evs : List Event) (r : EpRec) : World × EpRec :=
  evs.reverse.foldl (fun (acc : World × EpRec) ev =>
    let (w, r) := acc
    match ev with
    | .out bytes => (w.say s!"out {id} {bytes.length} {hex64 (fnv64 bytes)} {(bytes.getLast?.getD 0).toNat} {(bytes.head?.getD 0).toNat}", { r with outbox := r.outbox.push bytes })
    | .recv bs =>
      let w := w.say (s!"recv {id} {bs.length}" ++ String.join (bs.map showBunch))
      let w := if bs.length > 1 then
          let j := Large.join bs
          w.say s!"joined {id} {j.length} {hex64 (fnv64 (bitsToBytes j))}"
        else w
      (w, r)
    | .status pid ack => (w.say s!"status {id} {pid} {boolDigit ack}", r)
    | .connect re => (w.say s!"connect {id} {boolDigit re}", r)
    | .accept re addr => (w.say s!"accept {id} {boolDigit re} {addr}", r)
    | .disconnect reason => (w.say s!"disconnect {id} {reason}", r)
    | .alloc k => ({ w.say s!"A {kindName k}" with live := w.live + 1, liveNodes := w.liveNodes + (if k == .node then 1 else 0) }, r)
    | .free k => ({ w.say s!"F {kindName k}" with live := w.live - 1, liveNodes := w.liveNodes - (if k == .node then 1 else 0) }, r)
    | .realloc k => (w.say s!"R {kindName k}", r)) (w, r)

/-- store a connection back, printing and clearing its log -/
def World.putConn (w : World) (id : Nat) (r : EpRec) (wr : Wrapped) : World :=
  let evs := wr.ep.c.log
  let wr := { wr with ep := { wr.ep with c := { wr.ep.c with log := [] } } }
  let (w, r) := w.drain id evs { r with node := .conn wr }
  w.setEp id r

def World.putLsn (w : World) (id : Nat) (r : EpRec) (l : Listener Float) : World :=
  let evs := l.log
  let l := { l with log := [] }
  let (w, r) := w.drain id evs { r with node := .lsn l }
  w.setEp id r

def payloadBytes (pseed : Nat) (n : Nat) : List UInt8 :=
  (List.range n).map fun i =>
    let x := (pseed * 1103515245 + 12345 + i * 2654435761) % 4294967296
    UInt8.ofNat ((x / 65536) % 256)

def hexVal (c : Char) : Option Nat :=
  if '0' ≤ c ∧ c ≤ '9' then some (c.toNat - 48)
  else if 'a' ≤ c ∧ c ≤ 'f' then some (c.toNat - 87)
  else if 'A' ≤ c ∧ c ≤ 'F' then some (c.toNat - 55) else none

def parseHex (s : String) : Option (List UInt8) :=
  if s == "-" then some [] else
  let rec go : List Char → Option (List UInt8)
    | [] => some []
    | [_] => none
    | a :: b :: rest => do
      let x ← hexVal a
      let y ← hexVal b
      let r ← go rest
      pure (UInt8.ofNat (x * 16 + y) :: r)
  go s.toList

def mutate (d : List UInt8) (kind : String) (a b : Nat) : List UInt8 :=
  if kind == "flip" then
    if d.isEmpty then d else
      let bit := a % (d.length * 8)
      d.mapIdx fun i v => if i == bit / 8 then v ^^^ (UInt8.ofNat (2 ^ (bit % 8))) else v
  else if kind == "setb" then
    if d.isEmpty then d else d.mapIdx fun i v => if i == a % d.length then UInt8.ofNat b else v
  else if kind == "trunc" then d.take (a % (d.length + 1))
  else if kind == "app" then d ++ [UInt8.ofNat a]
  else if kind == "nib" then
    d.mapIdx fun i v =>
      (List.range 4).foldl (fun (v : UInt8) k =>
        let bit := a + k
        if bit / 8 == i then
          let cleared := v &&& ~~~ (UInt8.ofNat (2 ^ (bit % 8)))
          if (b / 2 ^ k) % 2 == 1 then cleared ||| UInt8.ofNat (2 ^ (bit % 8)) else cleared
        else v) v
  else d

def pick (r : EpRec) (j : Int) : Option (List UInt8) :=
  let idx : Int := (r.cur : Int) + j
  if idx < 0 then none else r.outbox[idx.toNat]?

def hmacMac : Mac := Sha1.hmac

def bunchOfFlags (ch flags reason name : Nat) (data : Bits) : Bunch :=
  { chIndex := ch % 65536, bOpen := flags % 2 == 1, bClose := flags / 2 % 2 == 1, bPaused := flags / 4 % 2 == 1,
    bReliable := flags / 8 % 2 == 1, bExports := flags / 16 % 2 == 1, bGuids := flags / 32 % 2 == 1,
    bPartial := flags / 64 % 2 == 1, bPartialInitial := flags / 128 % 2 == 1, bPartialFinal := flags / 256 % 2 == 1,
    closeReason := reason % 16, nameIndex := name % 4294967296, data := data }

/-- deliver bytes to connection `id` (directly or through the wrapper) -/
def World.deliverConn (w : World) (id : Nat) (d : List UInt8) (wrapper : Bool) : World :=
  match w.getEp id with
  | some r =>
    match r.node with
    | .conn wr =>
      if wrapper then
        let (wr, rng) := wr.incoming floatOps w.env w.rng d
        ({ w with rng := rng }.putConn id r wr).say "ret w"
      else
        let (ep, rng, ok) := wr.ep.incoming floatOps w.env w.rng d
        let w := { w with rng := rng }.putConn id r { wr with ep := ep }
        let w := if ep.c.inPacketId != wr.ep.c.inPacketId then
            w.say s!"acc {id} {ep.c.inPacketId} {boolDigit (ep.c.notify.hist.headD false)}"
          else w
        w.say s!"ret {boolDigit ok}"
    | _ => w
  | none => w

def lsnSame (a b : Listener Float) : Bool :=
  a.st.secret0 == b.st.secret0 && a.st.secret1 == b.st.secret1 && a.st.active == b.st.active
  && a.st.lastSecretUpdate.toBits == b.st.lastSecretUpdate.toBits && a.st.addrScratch == b.st.addrScratch

def World.deliverLsn (w : World) (lid : Nat) (addr : String) (d : List UInt8) : World :=
  match w.getEp lid with
  | some r =>
    match r.node with
    | .lsn l =>
      let (l', rng, ret, acc) := l.incoming floatOps hmacMac w.env w.rng addr d
      let w := { w with rng := rng }
      let w := w.putLsn lid r l'
      -- the application's accept callback: create the registered connection
      let (w, created) := match acc with
        | some a =>
          if a.restarted then
            -- the sample's policy: the connection whose authorised cookie matches is re-bound to the new address
            match w.eps.find? (fun (p : Nat × EpRec) => match p.2.node with | .conn wr => wr.ep.c.cookie == a.cookie | _ => false) with
            | some (cid, r') =>
              match r'.node with
              | .conn wr =>
                let c' := { wr.ep.c with lastRecvMs := w.env.nowMs, lastSendMs := w.env.nowMs }
                let w := { w with routes := ((lid, a.addr), cid) :: w.routes.filter (·.2 != cid) }
                let w := w.say s!"rebind {cid} {a.addr}"
                -- (the state digest of the harness covers every live block: the re-bound connection's time stamps count)
                (w.setEp cid { r' with node := .conn { wr with ep := { wr.ep with c := c' } } }, c' != wr.ep.c)
              | _ => (w, false)
            | none => (w, false)
          else
          match w.onaccept.find? (fun (p : (Nat × String) × Nat) => p.1 == (lid, a.addr)) with
          | some (_, cid) =>
            if a.restarted || (w.getEp cid).isSome then (w, false) else
            let ep := Endpoint.accepted w.env a
            let w := { w with onaccept := w.onaccept.filter (·.1 != (lid, a.addr)), routes := ((lid, a.addr), cid) :: w.routes }
            (w.putConn cid { node := .conn {} } { ep := ep }, true)
          | none => (w, false)
        | none => (w, false)
      let same := lsnSame l l' && !created
      (w.say s!"lstate {if same then "same" else "changed"}").say s!"ret {ret}"
    | _ => w
  | none => w

def World.destroyEp (w : World) (id : Nat) : World :=
  match w.getEp id with
  | none => w
  | some r =>
    let w := match r.node with
      | .conn wr => w.putConn id r { wr with ep := wr.ep.destroy }
      | .lsn l => w.putLsn id r (l.emit (.free .lsn))
    { w with eps := w.eps.filter (·.1 != id), routes := w.routes.filter (·.2 != id) }

def World.destroyAll (w : World) : World :=
  let w := (w.eps.map (·.1)).foldl World.destroyEp w
  { w with onaccept := [], routes := [], maxDelivered := [] }

/-! ### structure-aware re-encoding of a handshake datagram (`craft` / `lcraft`) -/
structure HsFields where
  session : Nat := 0
  client : Nat := 0
  restart : Bool := false
  minver : Nat := 0
  curver : Nat := 3
  /-- the version whose field layout the datagram uses (= `curver` for a genuine datagram; a crafted one may advertise another version in that layout) -/
  layout : Nat := 3
  ptype : Nat := 0
  count : Nat := 0
  netver : Nat := 0
  sid : Bool := false
  ts : Bits := []
  cookie : Bits := []

def hsDecodeFields (e : Env) (bytes : List UInt8) : Option HsFields :=
  match readInit bytes with
  | none => none
  | some bits =>
    match readBits e.magicBits bits with
    | .fail _ => none
    | .ok _ r =>
    match readBits 2 r with
    | .fail _ => none
    | .ok s r =>
    match readBits 3 r with
    | .fail _ => none
    | .ok c r =>
    match readBit r with
    | .fail _ => none
    | .ok hs r =>
    if !hs then none else
    match readBit r with
    | .fail _ => none
    | .ok restart r =>
    match readByte r with
    | .fail _ => none
    | .ok minv r =>
    match readByte r with
    | .fail _ => none
    | .ok curv r =>
    match readByte r with
    | .fail _ => none
    | .ok ptype r =>
    match readByte r with
    | .fail _ => none
    | .ok cnt r =>
    match (if curv ≥ 2 then readU32 r else .ok 0 r) with
    | .fail _ => none
    | .ok netv r =>
    match readBit r with
    | .fail _ => none
    | .ok sid r =>
    match readBits 64 r with
    | .fail _ => none
    | .ok ts r =>
    match readBits 160 r with
    | .fail _ => none
    | .ok ck _ =>
      some { session := bitsToNat s, client := bitsToNat c, restart := restart, minver := minv, curver := curv, layout := curv, ptype := ptype,
             count := cnt, netver := netv, sid := sid, ts := ts, cookie := ck }

def hsEncodeFields (e : Env) (f : HsFields) (extra : Option (List UInt8)) (pad : Nat) : List UInt8 :=
  bitsToBytes (
    natToBits e.magic e.magicBits
    ++ (if f.layout ≥ 3 then natToBits f.session 2 ++ natToBits f.client 3 else [])
    ++ [true, f.restart]
    ++ (if f.layout ≥ 1 then writeByte f.minver ++ writeByte f.curver ++ writeByte f.ptype ++ writeByte f.count else [])
    ++ (if f.layout ≥ 2 then writeU32 f.netver else [])
    -- a restart-handshake request (type 4) carries no secret id / timestamp / cookie
    ++ (if f.ptype == 4 then [] else [f.sid] ++ f.ts ++ f.cookie ++ (match extra with | some x => bytesToBits x | none => []))
    ++ List.replicate (8 * pad) false ++ [true])

def flipCookieBit (ck : Bits) (byteIdx : Nat) : Bits :=
  ck.mapIdx fun i b => if i == 8 * (byteIdx % 20) then !b else b

/-- args: restart type curver count sid cookieflip extra pad (−1 = keep) -/
def craftDatagram (e : Env) (src : List UInt8) (args : List Int) : Option (List UInt8) :=
  match hsDecodeFields e src with
  | none => none
  | some f =>
    let g (i : Nat) : Int := args.getD i (-1)
    let f := if g 0 ≥ 0 then { f with restart := (g 0).toNat % 2 == 1 } else f
    let f := if g 1 ≥ 0 then { f with ptype := (g 1).toNat % 256 } else f
    -- 0..255: that version, in that version's layout; 300 + v: advertise v but keep the layout of the source datagram
    let f := if g 2 ≥ 300 then { f with curver := ((g 2).toNat - 300) % 256 } else if g 2 ≥ 0 then { f with curver := (g 2).toNat % 256, layout := (g 2).toNat % 256 } else f
    let f := if g 3 ≥ 0 then { f with count := (g 3).toNat % 256 } else f
    let f := if g 4 ≥ 0 then { f with sid := (g 4).toNat % 2 == 1 } else f
    let f := if g 5 ≥ 0 then { f with cookie := flipCookieBit f.cookie (g 5).toNat } else f
    let extra := if g 6 ≥ 0 then some ((List.range 20).map fun i => UInt8.ofNat (((g 6).toNat + i) % 256)) else none
    let pad := if g 7 ≥ 0 then (g 7).toNat % 32 else 16
    some (hsEncodeFields e f extra pad)

/-- what a parsed bunch must look like, given what was put into the serializer (fields the header does not carry read back as 0) -/
def expectView (b : Bunch) : Bunch :=
  { b with closeReason := if b.bClose then b.closeReason else 0,
           bPartialInitial := b.bPartial && b.bPartialInitial, bPartialFinal := b.bPartial && b.bPartialFinal,
           nameIndex := if b.bReliable || b.bOpen then b.nameIndex else 0,
           chSeq := if b.bReliable then b.chSeq % 1024 else 0, packetId := 0 }

def toNat! (s : String) : Nat := s.toNat?.getD 0
def toInt! (s : String) : Int := s.toInt?.getD 0

def World.exec (w : World) (op : String) (args : List String) : World :=
    let a (i : Nat) : String := args.getD i ""
    let n (i : Nat) : Nat := toNat! (a i)
    match op with
    | "reset" =>
      let w := w.destroyAll
      let w := w.say s!"live {w.live}"
      { w with env := {}, rng := {} }
    | "cfg" =>
      match a 0 with
      | "magic" => { w with env := { w.env with magicBits := n 1 % 256, magic := n 2 % 4294967296 } }
      | "travel" => { w with env := { w.env with travel := n 1 } }
      | "checksum" => { w with env := { w.env with checksum := n 1 % 4294967296 } }
      | _ => w
    | "seed" => { w with rng := { rnd := n 0 % 4294967296, lib := n 1 % 4294967296 } }
    | "fill" => w
    | "tick" => { w with env := { w.env with elapsedUs := w.env.elapsedUs + Int.tdiv (toInt! (a 0)) 1000 } }
    | "conn" =>
      if (w.getEp (n 0)).isSome then w else
      let c : Conn := {}
      w.putConn (n 0) { node := .conn {} } { ep := { c := c.emit (.alloc .conn) } }
    | "seqinit" =>
      match w.getEp (n 0) with
      | some r => match r.node with
        | .conn wr =>
          let c := wr.ep.c.seqInit (toInt! (a 1)) (toInt! (a 2))
          let c := { c with lastRecvMs := w.env.nowMs, lastSendMs := w.env.nowMs }
          w.putConn (n 0) r { wr with ep := { wr.ep with c := c } }
        | _ => w
      | none => w
    | "connect" =>
      match w.getEp (n 0) with
      | some r => match r.node with
        | .conn wr =>
          if wr.ep.chal.isSome then w else
          let (ep, rng, cnt) := wr.ep.connect w.env w.rng w.clientCounter
          { w with rng := rng, clientCounter := cnt }.putConn (n 0) r { wr with ep := ep }
        | _ => w
      | none => w
    | "listener" =>
      if (w.getEp (n 0)).isSome then w else
      let (l, rng) := Listener.create floatOps w.env w.rng
      { w with rng := rng }.putLsn (n 0) { node := .lsn l } l
    | "onaccept" => { w with onaccept := ((n 0, a 1), n 2) :: w.onaccept.filter (·.1 != (n 0, a 1)) }
    | "send" =>
      match w.getEp (n 0) with
      | some r => match r.node with
        | .conn wr =>
          let bits := n 5 % 65536
          let nb := min ((bits + 7) / 8) Gen.SIZEOF_BUNCH_DATA.toNat
          let raw := bytesToBits (payloadBytes (n 6) nb)
          let data := (raw ++ List.replicate (bits - raw.length) false).take bits
          let b := bunchOfFlags (n 1) (n 2) (n 3) (n 4) data
          let (c, ret) := wr.ep.c.sendBunch w.env b
          let same := c == wr.ep.c
          let w := w.putConn (n 0) r { wr with ep := { wr.ep with c := c } }
          let w := if ret < 0 then w.say s!"cstate {if same then "same" else "changed"}" else w
          w.say s!"ret {ret}"
        | _ => w
      | none => w
    | "lsend" =>
      match w.getEp (n 0) with
      | some r => match r.node with
        | .conn wr =>
          let bits := n 4
          let nb := (bits + 7) / 8
          let bytes := (List.range ((nb + 1023) / 1024)).flatMap fun k => payloadBytes (n 5 + k) (min 1024 (nb - 1024 * k))
          let data := (bytesToBits bytes).take bits
          let b := bunchOfFlags (n 1) ((n 2) % 16 - (n 2) % 8 + (n 2) % 4) 0 (n 3) data
          let (c, first, last) := (Large.split b).foldl (fun (acc : Conn × Int × Int) sub =>
            let (c, first, _) := acc
            let (c, pid) := c.sendBunch w.env sub
            (c, if first == -1 then pid else first, pid)) (wr.ep.c, -1, -1)
          let frs := Large.split b
          let sum := (frs.map (·.data.length)).sum
          let shape := (match frs.head? with | some f => (if f.bPartial then 1 else 0) + (if f.bPartialInitial then 2 else 0) | none => 0)
                     + (match frs.getLast? with | some f => (if f.bPartial then 4 else 0) + (if f.bPartialFinal then 8 else 0) | none => 0)
          (w.putConn (n 0) r { wr with ep := { wr.ep with c := c } }).say s!"ret {first} {last} {frs.length} {sum} {shape}"
        | _ => w
      | none => w
    | "flush" =>
      match w.getEp (n 0) with
      | some r => match r.node with
        | .conn wr => (w.putConn (n 0) r { wr with ep := { wr.ep with c := wr.ep.c.flush w.env } }).say "ret 0"
        | _ => w
      | none => w
    | "update" =>
      match w.getEp (n 0) with
      | some r => match r.node with
        | .conn wr =>
          let (ep, rng, ret) := wr.ep.update floatOps w.env w.rng
          ({ w with rng := rng }.putConn (n 0) r { wr with ep := ep }).say s!"ret {ret}"
        | _ => w
      | none => w
    | "wb" =>
      match w.getEp (n 0) with
      | some r => match r.node with
        | .conn wr => w.say s!"ret {boolDigit (wr.ep.c.wouldBlock (toInt! (a 1)))}"
        | _ => w
      | none => w
    | "expect" =>
      match w.getEp (n 0) with
      | some r => match r.node with
        | .conn wr => w.say s!"ret {wr.ep.c.inPacketId + 1}"
        | _ => w
      | none => w
    | "closed" =>
      match w.getEp (n 0) with
      | some r => match r.node with
        | .conn wr => w.say s!"ret {boolDigit wr.ep.c.bClose} {wr.ep.c.closeReason}"
        | _ => w
      | none => w
    | "inject" =>
      match w.getEp (n 0) with
      | some r => match r.node with
        | .conn wr =>
          match parseHex (a 2) with
          | some bytes =>
            if n 1 ≤ bytes.length * 8 then
              let (c', pid) := wr.ep.c.writeBits w.env ((bytesToBits bytes).take (n 1))
              (w.putConn (n 0) r { wr with ep := { wr.ep with c := c' } }).say s!"ret {pid}"
            else w.say "ret none"
          | none => w.say "ret none"
        | _ => w
      | none => w
    | "chans" =>
      match w.getEp (n 0) with
      | some r => match r.node with
        | .conn wr =>
          let items := wr.ep.c.chans.map fun (p : Nat × Channel) => s!" {p.1}:{boolDigit p.2.bClose}:{p.2.outRec.length}:{p.2.inRec.length}"
          w.say s!"ret {wr.ep.c.chans.length}{String.join items}"
        | _ => w
      | none => w
    | "rpl" =>
      match w.getEp (n 0), w.getEp (n 1), w.maxDelivered.find? (fun (p : (Nat × Nat) × Nat) => p.1 == (n 0, n 1)) with
      | some r, some s, some (_, m) =>
        match r.node, (if n 2 ≤ m then s.outbox[m - n 2]? else none) with
        | .conn _, some d => w.deliverConn (n 0) d false
        | _, _ => w.say "ret none"
      | _, _, _ => w.say "ret none"
    | "peek" | "dlv" | "wdlv" | "mut" | "wmut" =>
      let dst := n 0
      match w.getEp dst, w.getEp (n 1) with
      | some r, some s =>
        match r.node, pick s (toInt! (a 2)) with
        | .conn wr, some d =>
          let d := if op == "mut" || op == "wmut" then mutate d (a 3) (n 4) (n 5) else d
          if op == "peek" then (w.say "cstate same").say s!"ret {wr.ep.peek w.env d}"
          else
            let w := if op == "dlv" || op == "wdlv" then w.noteDelivered dst (n 1) ((s.cur : Int) + toInt! (a 2)).toNat else w
            w.deliverConn dst d (op.startsWith "w")
        | _, _ => w.say "ret none"
      | _, _ => w.say "ret none"
    | "dln" | "wdln" =>
      match w.getEp (n 0), w.getEp (n 1) with
      | some r, some s =>
        match r.node, s.outbox[s.cur]? with
        | .conn _, some d =>
          let w := (w.setEp (n 1) { s with cur := s.cur + 1 }).noteDelivered (n 0) (n 1) s.cur
          w.deliverConn (n 0) d (op.startsWith "w")
        | _, _ => w.say "ret none"
      | _, _ => w.say "ret none"
    | "dla" | "wdla" | "hsdla" =>
      match w.getEp (n 0), w.getEp (n 1) with
      | some r, some s =>
        match r.node with
        | .conn _ =>
          let endIdx := s.outbox.size
          (List.range (endIdx - s.cur)).foldl (fun w _ =>
            match w.getEp (n 1) with
            | some s =>
              match s.outbox[s.cur]? with
              | some d =>
                let w := (w.setEp (n 1) { s with cur := s.cur + 1 }).noteDelivered (n 0) (n 1) s.cur
                if op == "hsdla" && d.length ≤ 4 then w else w.deliverConn (n 0) d (op.startsWith "w")
              | none => w
            | none => w) w
        | _ => w
      | _, _ => w
    | "skip" =>
      match w.getEp (n 0) with
      | some s => w.setEp (n 0) { s with cur := s.outbox.size }
      | none => w
    | "drop" =>
      match w.getEp (n 0) with
      | some s => if s.cur < s.outbox.size then w.setEp (n 0) { s with cur := s.cur + 1 } else w
      | none => w
    | "wflush" =>
      match w.getEp (n 0) with
      | some r => match r.node with
        | .conn wr =>
          let (wr, rng) := wr.flushCache floatOps w.env wr.cache.length w.rng true
          { w with rng := rng }.putConn (n 0) r wr
        | _ => w
      | none => w
    | "raw" | "wraw" =>
      match w.getEp (n 0), parseHex (a 1) with
      | some r, some d => match r.node with
        | .conn _ => w.deliverConn (n 0) d (op.startsWith "w")
        | _ => w
      | _, _ => w
    | "ldlv" | "lmut" =>
      match w.getEp (n 0), w.getEp (n 2) with
      | some r, some s =>
        match r.node, pick s (toInt! (a 3)) with
        | .lsn _, some d =>
          let d := if op == "lmut" then mutate d (a 4) (n 5) (n 6) else d
          w.deliverLsn (n 0) (a 1) d
        | _, _ => w.say "ret none"
      | _, _ => w.say "ret none"
    | "lraw" =>
      match w.getEp (n 0), parseHex (a 2) with
      | some r, some d => match r.node with
        | .lsn _ => w.deliverLsn (n 0) (a 1) d
        | _ => w
      | _, _ => w
    | "route" | "routeat" =>
      match w.getEp (n 0), w.getEp (n 2) with
      | some r, some s =>
        let d? := if op == "route" then s.outbox[s.cur]? else pick s (toInt! (a 3))
        match r.node, d? with
        | .lsn _, some d =>
          let w := if op == "route" then w.setEp (n 2) { s with cur := s.cur + 1 } else w
          match w.routes.find? (fun (p : (Nat × String) × Nat) => p.1 == (n 0, a 1)) with
          | some (_, cid) =>
            match w.getEp cid with
            | some { node := Node.conn _, .. } => w.deliverConn cid d false
            | _ => w.deliverLsn (n 0) (a 1) d
          | none => w.deliverLsn (n 0) (a 1) d
        | _, _ => w.say "ret none"
      | _, _ => w.say "ret none"
    | "rot" =>
      match w.getEp (n 0) with
      | some r => match r.node with
        | .lsn l =>
          let special := match parseHex (a 1) with
            | some d => if d.length == 64 then some d else none
            | none => none
          let (l, rng) := l.updateSecret floatOps w.env w.rng special
          { w with rng := rng }.putLsn (n 0) r l
        | _ => w
      | none => w
    | "uninit" => w.destroyEp (n 0)
    | "craft" | "lcraft" =>
      let isL := op == "lcraft"
      let srcIdx := if isL then 2 else 1
      match w.getEp (n srcIdx) with
      | some s =>
        match pick s (toInt! (a (srcIdx + 1))) with
        | some d =>
          match craftDatagram w.env d ((args.drop (srcIdx + 2)).map toInt!) with
          | some d' =>
            -- (a destination that does not exist, or is of the other kind, silently receives nothing — as in the harness)
            match w.getEp (n 0) with
            | some r =>
              match r.node with
              | .lsn _ => if isL then w.deliverLsn (n 0) (a 1) d' else w
              | .conn _ => if isL then w else w.deliverConn (n 0) d' false
            | none => w
          | none => w.say "ret none"
        | none => w.say "ret none"
      | none => w.say "ret none"
    | "sendfill" =>
      match w.getEp (n 0) with
      | some r => match r.node with
        | .conn wr =>
          let b0 := bunchOfFlags (n 1) ((n 2) % 16 - (n 2) % 8 + (n 2) % 2) 0 (n 3) []
          let h := ((encodeBunchHeader { b0 with chSeq := 0 }).getD []).length
          let bits : Nat := if wr.ep.c.sendActive then ((wr.ep.c.freeBits w.env) - (h : Int) - (n 4 : Int)).toNat else 100
          let nb := min ((bits + 7) / 8) Gen.SIZEOF_BUNCH_DATA.toNat
          let raw := bytesToBits (payloadBytes (n 5) nb)
          let data := (raw ++ List.replicate (bits - raw.length) false).take bits
          let (c, ret) := wr.ep.c.sendBunch w.env { b0 with data := data }
          (w.putConn (n 0) r { wr with ep := { wr.ep with c := c } }).say s!"ret {ret} {bits}"
        | _ => w
      | none => w
    | "codec" =>
      let bits := n 5 % 7266
      let nb := (bits + 7) / 8
      let data := (bytesToBits (payloadBytes (n 6) nb)).take bits
      let b := { bunchOfFlags (n 0) (n 1) (n 2) (n 3) data with chSeq := toInt! (a 4) }
      match encodeBunch b with
      | none => w.say "codec encfail"
      | some enc =>
        let sentinel := natToBits 0xA5C3 16
        match decodeBunch (enc ++ sentinel) with
        | .fail _ => w.say "codec decfail"
        | .ok b' rest =>
          if rest != sentinel then w.say "codec mismatch position"
          else if b' == expectView b then w.say s!"codec ok {enc.length}" else w.say "codec mismatch fields"
    | "bbs" => w.say (BB.bbScript args)
    | "bbbits" =>
      let nbits := n 0 % 2049
      let bits := (bytesToBits (payloadBytes (n 2) 300)).take nbits
      -- written at any bit offset and read back: the S-level buffer is a list of bits, so the run comes back as it went in
      w.say s!"bb ok {nbits} {hex64 (fnv64 (bitsToBytes bits))} 1 {nbits + 1}"
    | "bbint" | "bbwrapped" | "bbpacked" =>
      let v := n 0 % 4294967296
      let mx := n 1 % 4294967296
      if op == "bbint" && v ≥ mx then w.say "bb fail" else
      let enc := if op == "bbint" then writeInt v mx else if op == "bbwrapped" then writeIntWrapped v mx else writeIntPacked v
      match (if op == "bbpacked" then readIntPacked enc else readInt mx enc) with
      | .fail _ => w.say s!"bb readfail {enc.length}"
      | .ok got rest => w.say s!"bb ok {enc.length} {got} {enc.length - rest.length}"
    | "bbcut" =>
      -- a value read back from a buffer that is `cut` bits too short: result, value, bits consumed on success; the cursor stays in range
      let kind := n 0
      let v := n 1 % 4294967296
      let mx := n 2 % 4294967296
      if kind == 0 && v ≥ mx then w.say "bb fail" else
      let enc := if kind == 0 then writeInt v mx else if kind == 1 then writeIntWrapped v mx else writeIntPacked v
      let cut := n 4 % (enc.length + 1)
      let short := enc.take (enc.length - cut)
      match (if kind == 2 then readIntPacked short else readInt mx short) with
      | .fail _ => w.say "bb cut 0 0 0 1"
      | .ok got rest => w.say s!"bb cut 1 {got} {short.length - rest.length} 1"
    | "nodes" => w.say s!"ret {w.liveNodes}"
    | "hex" =>
      match w.getEp (n 0) with
      | some s => match pick s (toInt! (a 1)) with
        | some d => w.say s!"hexdump {hexBytes d}"
        | none => w.say "hexdump none"
      | none => w.say "hexdump none"
    | _ => w.say "badop"

/-- one scenario line.  `ifconn <id> <op …>`: the application performs `<op>` only on a connection that is connected and not closed -/
def World.step (w : World) (line : String) : World :=
  let toks := (line.splitOn " ").filter (· != "")
  match toks with
  | [] => w
  | op :: args =>
    if op.startsWith "#" then w else
    let w := w.say s!"> {String.intercalate " " toks}"
    if op == "ifconn" then
      match args with
      | id :: op' :: args' =>
        let ok := match w.getEp (toNat! id) with
          | some r => match r.node with
            | .conn wr => wr.ep.c.connected && !wr.ep.c.bClose
            | _ => false
          | none => false
        if ok then w.exec op' args' else w.say "ret skip"
      | _ => w.say "ret skip"
    else if op == "ifroom" then
      -- the application keeps at most 256 unacknowledged reliable bunches per channel: `<op>` only while the channel has room
      match args with
      | id :: chs :: op' :: args' =>
        let ok := match w.getEp (toNat! id) with
          | some r => match r.node with
            | .conn wr => match wr.ep.c.getChan (toNat! chs) with
              | some x => decide (x.outRec.length + 1 < reliableBuffer)
              | none => true
            | _ => false
          | none => false
        if ok then w.exec op' args' else w.say "ret skip"
      | _ => w.say "ret skip"
    else w.exec op args

end Utcp
