import Utcp.Handshake
/-!
# The C++ convenience layer (`abstract/utcp.cpp`): `large_bunch` splitting / joining and the
packet-order cache of `utcp::conn`.
-/
namespace Utcp
open Gen

def partialBits : Nat := Gen.CXX_MAX_PARTIAL_BUNCH_SIZE_BITS.toNat     -- 7264

/-- fragment `pos` of a payload that took the `ExtData` path (`large_bunch::sub_bunch`) -/
def Large.subBunch (b : Bunch) (pos : Nat) : Bunch :=
  let len := b.data.length
  let last := len / partialBits
  { b with bPartial := decide (last > 0), bPartialInitial := pos == 0, bPartialFinal := pos == last,
           data := if pos == last then (b.data.drop (partialBits * pos)).take (len - partialBits * pos)
                   else (b.data.drop (partialBits * pos)).take partialBits }

/-- the bunches `for (auto& sub : large_bunch)` yields for a payload of any length -/
def Large.split (b : Bunch) : List Bunch :=
  if b.data.length ≤ partialBits then [b]
  else (List.range (large_bunch_num b.data.length).toNat).map (Large.subBunch b)

/-- `large_bunch(bunches, count)`: payload of a delivered group -/
def Large.join (bs : List Bunch) : Bits := bs.flatMap (·.data)

/-! ## packet-order cache -/

/-- insert keeping ascending packet id, after equal ids -/
def cacheInsert (pid : Int) (d : List UInt8) : List (Int × List UInt8) → List (Int × List UInt8)
  | [] => [(pid, d)]
  | (p, x) :: rest => if pid < p then (pid, d) :: (p, x) :: rest else (p, x) :: cacheInsert pid d rest

structure Wrapped where
  ep : Endpoint := {}
  cache : List (Int × List UInt8) := []
  deriving DecidableEq, Repr

/-- `conn::flush_packet_order_cache` -/
def Wrapped.flushCache {T} (tm : TimeOps T) (e : Env) (fuel : Nat) (w : Wrapped) (rng : Rng) (forced : Bool) : Wrapped × Rng :=
  match fuel with
  | 0 => (w, rng)
  | fuel+1 =>
    match w.cache with
    | [] => (w, rng)
    | (pid, d) :: rest =>
      let expected := w.ep.c.inPacketId + 1
      if !forced && expected != -1 && decide (pid > expected) then (w, rng) else
      let (ep, rng, _) := w.ep.incoming tm e rng d
      Wrapped.flushCache tm e fuel { ep := ep, cache := rest } rng forced

/-- `conn::incoming` -/
def Wrapped.incoming {T} (tm : TimeOps T) (e : Env) (w : Wrapped) (rng : Rng) (d : List UInt8) : Wrapped × Rng :=
  let pid := w.ep.peek e d
  if pid ≤ 0 then
    let (ep, rng, _) := w.ep.incoming tm e rng d
    ({ w with ep := ep }, rng)
  else
    let w := { w with cache := cacheInsert pid d w.cache }
    w.flushCache tm e w.cache.length rng false

end Utcp
