import Utcp.Bunch
import Utcp.Gen.PureFns
/-!
# The connection data path (`utcp_packet_notify.c`, `utcp_channel.c`, `utcp_packet.c`, `utcp.c`)

Every function is a total function on an immutable `Conn`.  Everything observable (datagrams, callbacks,
allocator traffic) is appended to `Conn.log`, newest first, so the log is a monotone history.
-/
namespace Utcp
open Gen

inductive Kind where
  | node | chan | chal | conn | lsn | open_
  deriving DecidableEq, Repr

inductive Event where
  | out (bytes : List UInt8)
  | recv (bs : List Bunch)
  | status (pid : Int) (ack : Bool)
  | connect (re : Bool)
  | accept (re : Bool) (addr : String)
  | disconnect (reason : Nat)
  | alloc (k : Kind)
  | free (k : Kind)
  | realloc (k : Kind)
  deriving DecidableEq, Repr

/-- process-global configuration and clock, as seen by one call -/
structure Env where
  elapsedUs : Int := 0
  magicBits : Nat := 0
  magic : Nat := 0
  travel : Nat := 0
  checksum : Nat := 0
  deriving Repr

def Env.nowMs (e : Env) : Int := utcp_gettime_ms e.elapsedUs

/-! ## close reasons (extracted) -/
def crControlChannelClose : Nat := Gen.ControlChannelClose.toNat
def crCleanup : Nat := Gen.Cleanup.toNat
def crPacketHandlerIncomingError : Nat := Gen.PacketHandlerIncomingError.toNat
def crConnectionTimeout : Nat := Gen.ConnectionTimeout.toNat
def crZeroLastByte : Nat := Gen.ZeroLastByte.toNat
def crReadHeaderFail : Nat := Gen.ReadHeaderFail.toNat
def crReadHeaderExtraFail : Nat := Gen.ReadHeaderExtraFail.toNat
def crBunchBadChannelIndex : Nat := Gen.BunchBadChannelIndex.toNat
def crBunchOverflow : Nat := Gen.BunchOverflow.toNat

def histLen : Nat := Gen.MaxSequenceHistoryLength.toNat           -- 256
def histWordsMax : Nat := Gen.SequenceHistoryWordCount.toNat      -- 8
def ringCap : Nat := Gen.RING_BUFFER_SIZE.toNat - 1               -- 255 usable slots
def maxChannels : Nat := Gen.DEFAULT_MAX_CHANNEL_SIZE.toNat       -- 32767
def maxGroup : Nat := Gen.EXTENT_HandleBunch.toNat                -- 256
def reliableBuffer : Nat := Gen.UTCP_RELIABLE_BUFFER.toNat        -- 256
def keepAliveMs : Int := Gen.KeepAliveTime                        -- 200
def connectTimeoutMs : Int := Gen.UTCP_CONNECT_TIMEOUT            -- 120000
def maxSingleBunchBits : Nat := Gen.PKT_MAX_SINGLE_BUNCH_SIZE_BITS.toNat

/-! ## packet notify -/

structure Notify where
  hist : List Bool := List.replicate 256 false
  inSeq : Int := 0
  inAckSeq : Int := 0
  inAckSeqAck : Int := 0
  outSeq : Int := 0
  outAckSeq : Int := 0
  writtenWords : Nat := 0
  writtenInAckSeq : Int := 0
  /-- (OutSeq, InAckSeq) records, oldest first -/
  ackRecord : List (Int × Int) := []
  deriving DecidableEq, Repr

structure NotifHeader where
  seq : Int
  ackedSeq : Int
  words : Nat
  hist : List Bool      -- `32 * words` bits, index 0 = most recent
  deriving DecidableEq, Repr

/-- `packet_notify_init` -/
def Notify.init (n : Notify) (inSeq outSeq : Int) : Notify :=
  { n with hist := List.replicate histLen false, inSeq := inSeq, inAckSeq := inSeq, inAckSeqAck := inSeq,
           outSeq := outSeq, outAckSeq := seq_num_init ((outSeq - 1) % 65536), ackRecord := [] }

/-- `packet_notify_GetCurrentSequenceHistoryLength` followed by the clamp in `fill_notification_header` -/
def Notify.curWords (n : Notify) : Nat :=
  let len : Nat := if seq_num_greater_equal n.inAckSeq n.inAckSeqAck then (seq_num_diff n.inAckSeq n.inAckSeqAck).toNat else histLen
  let w := (len + 31) / 32
  if w < 1 then 1 else if w < histWordsMax then w else histWordsMax

/-- the header `packet_notify_fill_notification_header` produces with `w` history words -/
def Notify.headerWith (n : Notify) (w : Nat) : NotifHeader :=
  { seq := n.outSeq, ackedSeq := n.inAckSeq, words := w, hist := n.hist.take (32 * (min w histWordsMax)) }

/-- `packet_notify_fill_notification_header(…, bRefresh = false)`: as many words as the un-acknowledged history needs -/
def Notify.fillFresh (n : Notify) : Notify × NotifHeader :=
  ({ n with writtenWords := n.curWords, writtenInAckSeq := n.inAckSeq }, n.headerWith n.curWords)

/-- `packet_notify_fill_notification_header(…, bRefresh = true)`: only if no more words are needed than were reserved -/
def Notify.fillRefresh (n : Notify) : Option (Notify × NotifHeader) :=
  if n.curWords > n.writtenWords then none
  else some ({ n with writtenInAckSeq := n.inAckSeq }, n.headerWith n.writtenWords)

/-- `packet_header_write` with `bHasPacketInfoPayload = 0` -/
def encodeNotifHeader (h : NotifHeader) : Bits :=
  -- `PackedHeader_Pack`: the three fields occupy disjoint bit ranges (seq and ackedSeq are 14-bit values)
  let packed := (h.seq.toNat % 16384) * 2^18 + (h.ackedSeq.toNat % 16384) * 16 + (h.words - 1) % 16
  writeU32 packed ++ h.hist ++ [false]

/-- `packet_header_read`: `.ok hdr` or the close reason -/
def decodePacketHeader : Bits → Except Nat (NotifHeader × Bits) := fun bs =>
  match readU32 bs with
  | .fail _ => .error crReadHeaderFail
  | .ok packed rest =>
    let seq : Int := ((packed / 2^18 % 16384 : Nat) : Int)
    let acked : Int := ((packed / 16 % 16384 : Nat) : Int)
    let w := min histWordsMax ((packed % 16) + 1)
    match readBits (32 * w) rest with
    | .fail _ => .error crReadHeaderFail
    | .ok hist rest =>
      match readBit rest with
      | .fail _ => .error crReadHeaderExtraFail
      | .ok info rest =>
        if !info then .ok ({ seq := seq, ackedSeq := acked, words := w, hist := hist }, rest) else
        match readInt 1024 rest with
        | .fail _ => .error crReadHeaderExtraFail
        | .ok _ rest =>
          match readBit rest with
          | .fail _ => .error crReadHeaderExtraFail
          | .ok ft rest =>
            if !ft then .ok ({ seq := seq, ackedSeq := acked, words := w, hist := hist }, rest) else
            match readBits 8 rest with
            | .fail _ => .error crReadHeaderExtraFail
            | .ok _ rest => .ok ({ seq := seq, ackedSeq := acked, words := w, hist := hist }, rest)

/-- `packet_notify_delta_seq`: the definition translated from the C source on every run (`Gen/PureFns.lean`) -/
def Notify.deltaSeq (n : Notify) (h : NotifHeader) : Int :=
  packet_notify_delta_seq h.seq n.inSeq h.ackedSeq n.outAckSeq n.outSeq

/-- the acceptance test of `packet_notify_delta_seq` written out by hand; `Notify.deltaSeq_eq` shows that the translated code says
exactly this (the proof is re-checked on every run, so a change of the C condition breaks it) -/
def Notify.deltaSeqSpec (n : Notify) (h : NotifHeader) : Int :=
  if seq_num_greater_than h.seq n.inSeq && seq_num_greater_equal h.ackedSeq n.outAckSeq && seq_num_greater_than n.outSeq h.ackedSeq
  then seq_num_diff h.seq n.inSeq else 0

theorem Notify.deltaSeq_eq (n : Notify) (h : NotifHeader) : n.deltaSeq h = n.deltaSeqSpec h := by
  unfold Notify.deltaSeq Notify.deltaSeqSpec packet_notify_delta_seq
  cases seq_num_greater_than h.seq n.inSeq <;> cases seq_num_greater_equal h.ackedSeq n.outAckSeq <;>
    cases seq_num_greater_than n.outSeq h.ackedSeq <;> simp

/-- one step of `AddDeliveryStatus` -/
def pushHist (hist : List Bool) (b : Bool) : List Bool := (b :: hist).take histLen

/-- `packet_notify_ack_seq` loop -/
def ackSeqLoop (fuel : Nat) (n : Notify) (acked : Int) (isAck : Bool) : Notify :=
  match fuel with
  | 0 => n
  | fuel+1 =>
    if seq_num_greater_than acked n.inAckSeq then
      let s := seq_num_inc n.inAckSeq 1
      let rep := if s == acked then isAck else false
      ackSeqLoop fuel { n with inAckSeq := s, hist := pushHist n.hist rep } acked isAck
    else n

def Notify.ackSeq (n : Notify) (ackedSeq : Int) (isAck : Bool) : Notify :=
  ackSeqLoop 16384 n (seq_num_init (ackedSeq % 65536)) isAck

/-- `ring_buffer_queue`: the oldest record is overwritten when the ring is full -/
def ringQueue (r : List (Int × Int)) (x : Int × Int) : List (Int × Int) :=
  if r.length ≥ ringCap then r.tail ++ [x] else r ++ [x]

/-- `packet_notify_commit_and_inc_outseq` -/
def Notify.commit (n : Notify) : Notify :=
  { n with ackRecord := ringQueue n.ackRecord (n.outSeq, n.writtenInAckSeq), writtenWords := 0,
           outSeq := seq_num_inc n.outSeq 1 }

/-- `UpdateInAckSeqAck` -/
def Notify.updateInAckSeqAck (n : Notify) (ackCount : Nat) (ackedSeq : Int) : Notify :=
  let pess : Int := (ackedSeq - 256) % 65536
  if ackCount ≤ n.ackRecord.length then
    let rest := n.ackRecord.drop ackCount
    match n.ackRecord[ackCount - 1]? with
    | some (o, i) => if o == ackedSeq then { n with ackRecord := rest, inAckSeqAck := i }
                     else { n with ackRecord := rest, inAckSeqAck := pess }
    | none => { n with ackRecord := rest, inAckSeqAck := pess }
  else { n with inAckSeqAck := pess }

/-- the delivery verdicts `packet_notify_update` hands to `HandlePacketNotification`, oldest first -/
def verdicts (outAckSeq : Int) (h : NotifHeader) (ackCount : Nat) : List (Int × Bool) :=
  (List.range ackCount).map fun i =>
    let idx := ackCount - 1 - i
    (seq_num_inc outAckSeq ((i + 1 : Nat) : Int) , if idx ≥ histLen then false else h.hist.getD idx false)

/-! ## channels -/

structure OutNode where
  packetId : Int
  bits : Bits
  deriving DecidableEq, Repr

structure Channel where
  inPartial : List Bunch := []
  inRec : List Bunch := []
  outRec : List OutNode := []
  outReliable : Int := 0
  inReliable : Int := 0
  bClose : Bool := false
  closeReason : Nat := 0
  deriving DecidableEq, Repr

structure Conn where
  log : List Event := []
  bClose : Bool := false
  closeReason : Nat := 0
  cookie : List UInt8 := List.replicate 20 0
  lastRecvMs : Int := 0
  inPacketId : Int := 0
  outPacketId : Int := 0
  outAckPacketId : Int := 0
  lastNotified : Int := 0
  notify : Notify := {}
  /-- open channels, ascending channel index (the order of `open_channels`) -/
  chans : List (Nat × Channel) := []
  openCap : Nat := 0
  initOutReliable : Int := 0
  initInReliable : Int := 0
  hasChannelClose : Bool := false
  sendActive : Bool := false
  sendNotif : Bits := []
  sendBody : Bits := []
  lastSendMs : Int := 0
  lastSessionId : Nat := 0
  lastClientId : Nat := 0
  /-- `false` for a client whose handshake has not completed (`is_connected`) -/
  connected : Bool := true
  deriving DecidableEq, Repr

def Conn.emit (c : Conn) (e : Event) : Conn := { c with log := e :: c.log }

/-- `utcp_mark_close` -/
def Conn.markClose (c : Conn) (reason : Nat) : Conn :=
  if c.bClose then c else { c with bClose := true, closeReason := reason % 128 }

def Conn.getChan (c : Conn) (ch : Nat) : Option Channel := (c.chans.find? (·.1 == ch)).map (·.2)

def insertSorted (ch : Nat) (x : Channel) : List (Nat × Channel) → List (Nat × Channel)
  | [] => [(ch, x)]
  | (k, v) :: rest => if ch < k then (ch, x) :: (k, v) :: rest else if ch == k then (k, x) :: rest else (k, v) :: insertSorted ch x rest

def Conn.setChan (c : Conn) (ch : Nat) (x : Channel) : Conn := { c with chans := insertSorted ch x c.chans }

/-- `alloc_utcp_channel` + `opened_channels_add` (with the capacity doubling of `opened_channels_resize`) -/
def Conn.createChan (c : Conn) (ch : Nat) : Conn :=
  let c := c.emit (.alloc .chan)
  let c := if c.chans.length < c.openCap then c
           else if c.openCap == 0 then { c.emit (.alloc .open_) with openCap := 32 }
           else { c.emit (.realloc .open_) with openCap := c.openCap * 2 }
  c.setChan ch { inReliable := c.initInReliable, outReliable := c.initOutReliable }

/-- `utcp_channels_get_channel` -/
def Conn.getOrCreateChan (c : Conn) (b : Bunch) (incoming : Bool) : Conn × Option Channel :=
  match c.getChan b.chIndex with
  | some x => (c, some x)
  | none =>
    if b.bOpen || (incoming && b.bReliable) then
      let c := c.createChan b.chIndex
      (c, c.getChan b.chIndex)
    else (c, none)

/-- `mark_channel_close` -/
def Channel.markClosed (x : Channel) (reason : Nat) : Channel :=
  if x.bClose then x else { x with bClose := true, closeReason := reason % 16 }

/-- record that a deferred teardown is owed (`bHasChannelClose`) -/
def Conn.oweTeardown (c : Conn) : Conn := { c with hasChannelClose := true }

/-- `utcp_note_close` (connection part + `utcp_channels_mark_close`) -/
def Conn.noteClose (c : Conn) (b : Bunch) : Conn :=
  if !b.bClose then c else
  let c := if b.chIndex == 0 then c.markClose crControlChannelClose else c
  match c.getChan b.chIndex with
  | none => c
  | some x => (c.setChan b.chIndex (x.markClosed b.closeReason)).oweTeardown

/-! ## sending -/

def Env.outHdrLen (e : Env) : Nat := e.magicBits + 2 + 3 + 1

/-- `write_packet_header(…, is_handshake)` for the latest handshake version -/
def outgoingHeader (e : Env) (session client : Nat) (handshake : Bool) : Bits :=
  natToBits e.magic e.magicBits ++ natToBits session 2 ++ natToBits client 3 ++ [handshake]

def Conn.sendBitsNum (e : Env) (c : Conn) : Nat :=
  if c.sendActive then e.outHdrLen + c.sendNotif.length + c.sendBody.length else 0

/-- `GetFreeSendBufferBits` -/
def Conn.freeBits (e : Env) (c : Conn) : Int := GetFreeSendBufferBits (c.sendBitsNum e)

/-- header placeholder written when the first bits enter an empty send buffer -/
def Conn.startPacket (c : Conn) : Conn :=
  { c with notify := c.notify.fillFresh.1, sendActive := true, sendNotif := encodeNotifHeader c.notify.fillFresh.2, sendBody := [] }

/-- the header that goes out with the packet: refreshed if the history still fits the space reserved for it,
otherwise the placeholder written when the packet was started -/
def Conn.finalHeader (c : Conn) : Notify × Bits :=
  match c.notify.fillRefresh with
  | some (n, h) => (n, encodeNotifHeader h)
  | none => (c.notify, c.sendNotif)

/-- the bits of the datagram a flush emits -/
def Conn.packetBits (e : Env) (c : Conn) : Bits :=
  outgoingHeader e c.lastSessionId c.lastClientId false ++ c.finalHeader.2 ++ c.sendBody ++ [true, true]

/-- emit the pending packet (the send buffer is active) -/
def Conn.flushNow (e : Env) (c : Conn) : Conn :=
  { c with log := .out (bitsToBytes (c.packetBits e)) :: c.log, notify := c.finalHeader.1.commit, sendActive := false,
           sendNotif := [], sendBody := [], lastSendMs := e.nowMs, outPacketId := c.outPacketId + 1 }

/-- does `utcp_send_flush` emit a datagram now? -/
def Conn.flushDue (e : Env) (c : Conn) : Bool :=
  c.connected && (c.sendActive || decide (e.nowMs - c.lastSendMs ≥ keepAliveMs))

/-- `utcp_send_flush` -/
def Conn.flush (e : Env) (c : Conn) : Conn :=
  if !c.flushDue e then c else
  (if c.sendActive then c else c.startPacket).flushNow e

/-- `PrepareWriteBitsToSendBuffer` -/
def Conn.prepareWrite (e : Env) (c : Conn) (total : Nat) : Conn :=
  let c := if decide ((total : Int) > c.freeBits e) then c.flush e else c
  if !c.sendActive then c.startPacket else c

/-- `WriteBitsToSendBufferInternal`: returns the packet id the bits travel in -/
def Conn.writeInternal (e : Env) (c : Conn) (bits : Bits) : Conn × Int :=
  let c := { c with sendBody := c.sendBody ++ bits }
  let pid := c.outPacketId
  let c := if c.freeBits e == 0 then c.flush e else c
  (c, pid)

/-- `WriteBitsToSendBuffer` (retransmission path) -/
def Conn.writeBits (e : Env) (c : Conn) (bits : Bits) : Conn × Int :=
  (c.prepareWrite e bits.length).writeInternal e bits

/-- the validation `SendRawBunch` performs before touching any state: the refusal code, or the measured
header (written with a placeholder sequence: its size does not depend on the sequence value) -/
def Conn.sendCheck (c : Conn) (b : Bunch) : Int ⊕ Bits :=
  if b.chIndex ≥ maxChannels then .inl (-3) else
  if (c.getChan b.chIndex).isNone && !b.bOpen then .inl (-2) else
  match encodeBunchHeader { b with chSeq := 0 } with
  | none => .inl (-1)
  | some h0 => if h0.length + b.data.length > maxSingleBunchBits then .inl (-4) else .inr h0

/-- append a retransmission record (`add_ougoing_data`) -/
def Conn.addOutRec (c : Conn) (ch : Nat) (pid : Int) (bits : Bits) : Conn :=
  match c.getChan ch with
  | none => c
  | some x => c.setChan ch { x with outRec := x.outRec ++ [{ packetId := pid, bits := bits }] }

/-- the effects of an accepted send; returns the id of the packet that carries the bunch -/
def Conn.sendCommit (e : Env) (c : Conn) (b : Bunch) (h0 : Bits) : Conn × Int :=
  let c1 := (c.getOrCreateChan b false).1.noteClose b
  match c1.getChan b.chIndex with
  | none => (c1, -2)      -- unreachable: `sendCheck` has established that the channel exists or is being opened
  | some x =>
    let seq : Int := if b.bReliable then x.outReliable + 1 else 0
    let hdr := if b.bReliable then (encodeBunchHeader { b with chSeq := seq }).getD h0 else h0
    let c2 := if b.bReliable then c1.setChan b.chIndex { x with outReliable := seq } else c1
    let c3 := c2.prepareWrite e (hdr.length + b.data.length)
    let c4 := (c3.writeInternal e (hdr ++ b.data)).1
    (if b.bReliable then (c4.emit (.alloc .node)).addOutRec b.chIndex c3.outPacketId (hdr ++ b.data) else c4, c3.outPacketId)

/-- `SendRawBunch`: packet id, or the negative refusal code -/
def Conn.sendRaw (e : Env) (c : Conn) (b : Bunch) : Conn × Int :=
  match c.sendCheck b with
  | .inl err => (c, err)
  | .inr h0 => c.sendCommit e b h0

/-- `utcp_send_bunch` -/
def Conn.sendBunch (e : Env) (c : Conn) (b : Bunch) : Conn × Int :=
  let (c', r) := c.sendRaw e b
  if r ≥ 0 then (c', r) else (c', -1)

/-- `utcp_send_would_block` -/
def Conn.wouldBlock (c : Conn) (count : Int) : Bool := utcp_send_would_block count c.outPacketId c.outAckPacketId

/-! ## acknowledgements -/

/-- `remove_ougoing_data`: nodes of packet `pid` (they sit at the head), and what stays -/
def removeOutgoing (pid : Int) : List OutNode → List OutNode × List OutNode
  | [] => ([], [])
  | n :: rest =>
    if n.packetId == pid then
      let (r, k) := removeOutgoing pid rest
      (n :: r, k)
    else if pid < n.packetId then ([], n :: rest)
    else
      let (r, k) := removeOutgoing pid rest
      (r, n :: k)

/-- `utcp_channels_on_ack` over the channels `chs` (in table order) -/
def Conn.onAckChans (c : Conn) (pid : Int) : List Nat → Conn
  | [] => c
  | ch :: rest =>
    match c.getChan ch with
    | none => Conn.onAckChans c pid rest
    | some x =>
      let (rem, keep) := removeOutgoing pid x.outRec
      let c := c.setChan ch { x with outRec := keep }
      let c := rem.foldl (fun c _ => c.emit (.free .node)) c
      Conn.onAckChans c pid rest

/-- re-send the removed nodes of one channel, re-queueing each under its new packet id -/
def Conn.resendNodes (e : Env) (c : Conn) (ch : Nat) : List OutNode → Conn
  | [] => c
  | n :: rest =>
    let (c, pid) := c.writeBits e n.bits
    let c := match c.getChan ch with
      | none => c
      | some x => c.setChan ch { x with outRec := x.outRec ++ [{ n with packetId := pid }] }
    Conn.resendNodes e c ch rest

/-- `utcp_channels_on_nak` -/
def Conn.onNakChans (e : Env) (c : Conn) (pid : Int) : List Nat → Conn
  | [] => c
  | ch :: rest =>
    match c.getChan ch with
    | none => Conn.onNakChans e c pid rest
    | some x =>
      let (rem, keep) := removeOutgoing pid x.outRec
      let c := c.setChan ch { x with outRec := keep }
      let c := c.resendNodes e ch rem
      Conn.onNakChans e c pid rest

/-- `HandlePacketNotification` -/
def Conn.handleNotification (e : Env) (c : Conn) (v : Int × Bool) : Conn :=
  let c := { c with lastNotified := c.lastNotified + 1 }
  if seq_num_init (c.lastNotified % 65536) != v.1 then c else
  let chs := c.chans.map (·.1)
  if v.2 then
    let c := { c with outAckPacketId := c.lastNotified }
    let c := c.onAckChans c.lastNotified chs
    c.emit (.status c.lastNotified true)
  else
    let c := c.onNakChans e c.lastNotified chs
    c.emit (.status c.lastNotified false)

/-- `packet_notify_update` for an accepted header (`deltaSeq > 0`) -/
def Conn.notifyUpdate (e : Env) (c : Conn) (h : NotifHeader) : Conn :=
  let n := c.notify
  let c :=
    if seq_num_greater_than h.ackedSeq n.outAckSeq then
      let ackCount := (seq_num_diff h.ackedSeq n.outAckSeq).toNat
      let vs := verdicts n.outAckSeq h ackCount
      let c := { c with notify := n.updateInAckSeqAck ackCount h.ackedSeq }
      let c := vs.foldl (Conn.handleNotification e) c
      { c with notify := { c.notify with outAckSeq := h.ackedSeq } }
    else c
  { c with notify := { c.notify with inSeq := h.seq } }

/-! ## receiving -/

inductive MergeResult where
  | fatal | failed | succeed | available
  deriving DecidableEq, Repr

def Conn.freeNodes (c : Conn) (k : Nat) : Conn := (List.range k).foldl (fun c _ => c.emit (.free .node)) c

/-- does fragment `b` continue the group whose last fragment is `last`? (`bSequenceMatches`) -/
def seqMatches (last b : Bunch) : Bool :=
  if b.bReliable then b.chSeq == last.chSeq + 1 else (b.chSeq == last.chSeq + 1 || b.chSeq == last.chSeq)

/-- the merge condition of `merge_partial_data` -/
def canMerge (last b : Bunch) : Bool := !last.bPartialFinal && seqMatches last b && last.bReliable == b.bReliable

/-- an initial fragment arrives -/
def mergeInitial (c : Conn) (x : Channel) (b : Bunch) : Conn × Channel × MergeResult × Bool :=
  match x.inPartial.getLast? with
  | none => (c, { x with inPartial := [b] }, .succeed, false)
  | some last =>
    if !last.bPartialFinal && last.bReliable then
      -- an unfinished reliable group may not be destroyed
      (c, x, if b.bReliable then .fatal else .failed, !b.bReliable)
    else (c.freeNodes x.inPartial.length, { x with inPartial := [b] }, .succeed, false)

/-- a non-initial fragment arrives -/
def mergeNext (c : Conn) (x : Channel) (b : Bunch) : Conn × Channel × MergeResult × Bool :=
  match x.inPartial.getLast? with
  | none => (c, x, .failed, true)
  | some last =>
    if canMerge last b then
      (c, { x with inPartial := x.inPartial ++ [b] }, if b.bPartialFinal then .available else .succeed, false)
    else if last.bReliable then (c, x, if b.bReliable then .fatal else .failed, true)
    else (c.freeNodes x.inPartial.length, { x with inPartial := [] }, .failed, true)

/-- `merge_partial_data`: new channel, result, skipAck.  Freed nodes are logged on `c`. -/
def mergePartial (c : Conn) (x : Channel) (b : Bunch) : Conn × Channel × MergeResult × Bool :=
  if b.bPartialInitial then mergeInitial c x b else mergeNext c x b

/-- `ReceivedNextBunch`; returns the connection and the skip-ack flag.  The bunch's node is live on entry. -/
def Conn.receivedNextBunch (c : Conn) (b : Bunch) : Conn × Bool :=
  match c.getChan b.chIndex with
  | none => (c.emit (.free .node), false)      -- unreachable: the caller has just found or created the channel
  | some x =>
    let x := if b.bReliable then { x with inReliable := b.chSeq } else x
    if b.bPartial then
      let (c, x, res, skip) := mergePartial c x b
      let c := c.setChan b.chIndex x
      match res with
      | .succeed => (c, skip)
      | .available =>
        let group := x.inPartial
        if group.length > maxGroup then
          let c := c.freeNodes group.length
          let c := c.setChan b.chIndex { x with inPartial := [] }
          (c.markClose crBunchOverflow, skip)
        else
          let c := group.foldl Conn.noteClose c
          let c := c.emit (.recv group)
          let c := c.freeNodes group.length
          match c.getChan b.chIndex with
          | none => (c, skip)
          | some x => (c.setChan b.chIndex { x with inPartial := [] }, skip)
      | _ => (c.emit (.free .node), skip)
    else
      let c := c.setChan b.chIndex x
      let c := c.noteClose b
      let c := c.emit (.recv [b])
      (c.emit (.free .node), false)

/-- `DispatchWaitingBunches` (fuel = number of queued bunches, each round removes one) -/
def Conn.dispatchWaiting (fuel : Nat) (c : Conn) (ch : Nat) : Conn :=
  match fuel with
  | 0 => c
  | fuel+1 =>
    match c.getChan ch with
    | none => c
    | some x =>
      match x.inRec with
      | [] => c
      | b :: rest =>
        if b.chSeq != x.inReliable + 1 then c else
        let c := c.setChan ch { x with inRec := rest }
        let (c, _) := c.receivedNextBunch b
        Conn.dispatchWaiting fuel c ch

/-- `enqueue_incoming_data`: `none` when the sequence is already queued -/
def enqueueIncoming (b : Bunch) : List Bunch → Option (List Bunch)
  | [] => some [b]
  | q :: rest =>
    if b.chSeq == q.chSeq then none
    else if b.chSeq < q.chSeq then some (b :: q :: rest)
    else (enqueueIncoming b rest).map (q :: ·)

/-- give a freshly parsed bunch its absolute channel sequence (`MakeRelative` against the channel's counter;
unreliable partial fragments borrow the packet id) -/
def absSeq (c : Conn) (x : Channel) (b : Bunch) : Bunch :=
  if b.bReliable then { b with chSeq := MakeRelative_chseq b.chSeq x.inReliable }
  else if b.bPartial then { b with chSeq := c.inPacketId } else b

/-- the three-way decision of `ReceivedRawBunch`: already processed (drop), ahead of sequence (queue), or next -/
def Conn.processBunch (c : Conn) (x : Channel) (b : Bunch) : Conn × Bool :=
  if b.bReliable && decide (b.chSeq ≤ x.inReliable) then (c.emit (.free .node), false)
  else if b.bReliable && b.chSeq != x.inReliable + 1 then
    -- the queue is bounded (`UTCP_RELIABLE_BUFFER`): a bunch that does not fit is refused and the packet is not acknowledged
    if x.inRec.length + 1 ≥ reliableBuffer then (c.emit (.free .node), true) else
    match enqueueIncoming b x.inRec with
    | some q => (c.setChan b.chIndex { x with inRec := q }, false)
    | none => (c.emit (.free .node), false)
  else c.receivedNextBunch b

/-- `DispatchWaitingBunches` with enough fuel for everything queued -/
def Conn.dispatchAll (c : Conn) (ch : Nat) : Conn :=
  Conn.dispatchWaiting (match c.getChan ch with | some x => x.inRec.length | none => 0) c ch

/-- `ReceivedRawBunch` on the remaining bits of the packet: new state, remaining bits, skipAck -/
def Conn.receivedRawBunch (c : Conn) (bits : Bits) : Conn × Bits × Bool :=
  let c := c.emit (.alloc .node)
  match decodeBunch bits with
  | .fail rest => ((c.markClose crBunchOverflow).emit (.free .node), rest, false)
  | .ok b rest =>
    let b := { b with packetId := c.inPacketId }
    if b.chIndex ≥ maxChannels then ((c.markClose crBunchBadChannelIndex).emit (.free .node), rest, false) else
    match (c.getOrCreateChan b true).2 with
    | none => ((c.getOrCreateChan b true).1.emit (.free .node), rest, false)
    | some x =>
      let r := (c.getOrCreateChan b true).1.processBunch x (absSeq (c.getOrCreateChan b true).1 x b)
      (r.1.dispatchAll b.chIndex, rest, r.2)

/-- the bunch loop of `ReceivedPacket` -/
def Conn.bunchLoop (fuel : Nat) (c : Conn) (bits : Bits) (skip : Bool) : Conn × Bits × Bool :=
  match fuel with
  | 0 => (c, bits, skip)
  | fuel+1 =>
    if bits.isEmpty then (c, bits, skip) else
    let (c, rest, s) := c.receivedRawBunch bits
    Conn.bunchLoop fuel c rest (skip || s)

/-- `ReceivedPacket` on the bits that follow the outgoing header, conn-level terminator already removed.
Returns the new state and what `utcp_incoming` returns. -/
def Conn.receivedPacket (e : Env) (c : Conn) (bits : Bits) : Conn × Bool :=
  match decodePacketHeader bits with
  | .error reason => (c.markClose reason, false)
  | .ok (h, rest) =>
    let delta := c.notify.deltaSeq h
    if delta ≤ 0 then (c, rest.isEmpty) else
    let c := { c with inPacketId := c.inPacketId + delta }
    let c := c.notifyUpdate e h
    let (c, rest, skip) := Conn.bunchLoop (rest.length + 1) c rest false
    let c := { c with notify := c.notify.ackSeq c.inPacketId (!skip) }
    (c, rest.isEmpty)

/-- `utcp_sequence_init` -/
def Conn.seqInit (c : Conn) (inSeq outSeq : Int) : Conn :=
  { c with inPacketId := inSeq - 1, outPacketId := outSeq, outAckPacketId := outSeq - 1, lastNotified := outSeq - 1,
           initInReliable := inSeq % 1024, initOutReliable := outSeq % 1024,
           notify := c.notify.init (seq_num_init ((inSeq - 1) % 65536)) (seq_num_init (outSeq % 65536)) }

/-! ## periodic work and teardown -/

/-- `free_utcp_channel` -/
def Conn.freeChan (c : Conn) (x : Channel) : Conn :=
  let c := c.freeNodes x.inRec.length
  let c := c.freeNodes x.outRec.length
  let c := c.freeNodes x.inPartial.length
  c.emit (.free .chan)

/-- `utcp_delay_close_channel`: walks the open channels from the highest index down -/
def Conn.delayClose (c : Conn) : Conn :=
  if !c.hasChannelClose then c else
  let c := { c with hasChannelClose := false }
  c.chans.reverse.foldl (fun c (p : Nat × Channel) =>
    if !p.2.bClose then c
    else if !p.2.outRec.isEmpty then { c with hasChannelClose := true }
    else { c.freeChan p.2 with chans := c.chans.filter (·.1 != p.1) }) c

/-- the part of `utcp_update` that does not depend on the handshake state machine -/
def Conn.updateTail (c : Conn) : Conn × Int :=
  let c := c.delayClose
  if !c.bClose then (c, 0) else (c.emit (.disconnect c.closeReason), -1)

/-- timeout test of `utcp_update` for a connected endpoint -/
def Conn.checkTimeout (e : Env) (c : Conn) : Conn :=
  if decide (e.nowMs - c.lastRecvMs > connectTimeoutMs) then c.markClose crConnectionTimeout else c

/-- `utcp_channels_uninit` -/
def Conn.uninitChans (c : Conn) : Conn :=
  let c := c.chans.foldl (fun c p => c.freeChan p.2) c
  let c := if c.openCap > 0 then c.emit (.free .open_) else c
  { c with chans := [], openCap := 0 }

end Utcp
