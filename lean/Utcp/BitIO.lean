import Utcp.Basic
/-!
# S-level models of the `bit_buffer.c` primitives

Writers produce the bits they append.  Readers are functions `Bits → RR α`: they consume a prefix and
return the remainder, *also on failure* (the C callers sometimes keep parsing after a failed read,
so the cursor position a failed read leaves behind is observable).
-/
namespace Utcp

inductive RR (α : Type) where
  | ok (v : α) (rest : Bits)
  | fail (rest : Bits)
  deriving Repr

def Rd (α : Type) := Bits → RR α

@[inline] def Rd.pure {α} (a : α) : Rd α := fun bs => .ok a bs
@[inline] def Rd.bind {α β} (m : Rd α) (f : α → Rd β) : Rd β := fun bs =>
  match m bs with
  | .ok v rest => f v rest
  | .fail rest => .fail rest
@[inline] def Rd.failHere {α} : Rd α := fun bs => .fail bs

instance : Monad Rd where
  pure := Rd.pure
  bind := Rd.bind

@[simp] theorem Rd.pure_apply {α} (a : α) (bs : Bits) : (Pure.pure a : Rd α) bs = .ok a bs := rfl
@[simp] theorem Rd.bind_apply {α β} (m : Rd α) (f : α → Rd β) (bs : Bits) :
    (m >>= f) bs = match m bs with | .ok v rest => f v rest | .fail rest => .fail rest := rfl

/-! ## single bit, bit runs, bytes -/

/-- `bitbuf_read_bit` -/
def readBit : Rd Bool := fun bs =>
  match bs with
  | [] => .fail []
  | b :: rest => .ok b rest

/-- `bitbuf_read_bits` (cursor untouched on failure) -/
def readBits (n : Nat) : Rd Bits := fun bs =>
  if n ≤ bs.length then .ok (bs.take n) (bs.drop n) else .fail bs

/-- one byte as a number -/
def readByte : Rd Nat := fun bs =>
  match readBits 8 bs with
  | .ok v rest => .ok (bitsToNat v) rest
  | .fail rest => .fail rest

/-- `bitbuf_read_int_byte_order` / 32-bit little endian word -/
def readU32 : Rd Nat := fun bs =>
  match readBits 32 bs with
  | .ok v rest => .ok (bitsToNat v) rest
  | .fail rest => .fail rest

def writeByte (v : Nat) : Bits := natToBits v 8
def writeU32 (v : Nat) : Bits := natToBits v 32
def writeU64 (v : Nat) : Bits := natToBits v 64

/-! ## `SerializeInt` (bounded integer, UE early stop) -/

/-- `bitbuf_write_int` / `bitbuf_write_int_wrapped` loop. `fuel` = 33 covers `Mask` running over
all 32 bits and falling off (`Mask == 0`). -/
def wInt (fuel : Nat) (v mx mask nv : Nat) : Bits :=
  match fuel with
  | 0 => []
  | fuel+1 =>
    if nv + mask < mx ∧ mask < 2^32 then
      if v / mask % 2 = 1 then true :: wInt fuel v mx (mask*2) (nv+mask)
      else false :: wInt fuel v mx (mask*2) nv
    else []

/-- `bitbuf_write_int` (the caller has checked `v < mx`). -/
def writeInt (v mx : Nat) : Bits := wInt 33 v mx 1 0
/-- `bitbuf_write_int_wrapped`: same loop, no range check — the value is taken modulo. -/
def writeIntWrapped (v mx : Nat) : Bits := wInt 33 v mx 1 0

def rIntLoop (fuel : Nat) (mx mask nv : Nat) (start : Bits) : Rd Nat := fun bs =>
  match fuel with
  | 0 => .ok nv bs
  | fuel+1 =>
    if nv + mask < mx ∧ mask < 2^32 then
      match bs with
      | [] => .fail start          -- `buff->num` is only written back on success
      | b :: rest => rIntLoop fuel mx (mask*2) (if b then nv + mask else nv) start rest
    else .ok nv bs

/-- `bitbuf_read_int` -/
def readInt (mx : Nat) : Rd Nat := fun bs => rIntLoop 33 mx 1 0 bs bs

/-! ## `SerializeIntPacked` (7 bits per byte, low bit = continuation) -/

def wPacked (fuel : Nat) (v : Nat) : Bits :=
  match fuel with
  | 0 => []
  | fuel+1 =>
    let more := v / 128 != 0
    natToBits ((v % 128) * 2 + (if more then 1 else 0)) 8 ++ (if more then wPacked fuel (v / 128) else [])

/-- `bitbuf_write_int_packed` (32-bit values: at most 5 bytes) -/
def writeIntPacked (v : Nat) : Bits := wPacked 5 (v % 2^32)

def rPackedLoop (fuel : Nat) (shift acc : Nat) : Rd Nat := fun bs =>
  match fuel with
  | 0 => .ok acc bs
  | fuel+1 =>
    match readBits 8 bs with
    | .fail rest => .fail rest      -- bytes already consumed stay consumed
    | .ok byte rest =>
      let b := bitsToNat byte
      let acc' := (acc + (b / 2) * 2^shift) % 2^32
      if b % 2 = 1 then rPackedLoop fuel (shift + 7) acc' rest else .ok acc' rest

/-- `bitbuf_read_int_packed` -/
def readIntPacked : Rd Nat := rPackedLoop 5 0 0

end Utcp
