/-!
# Basic bit / byte plumbing (S-level: a packet is a `List Bool`)

Bit order is the one `bit_buffer.c` uses: stream bit `i` lives in byte `i / 8` at bit position
`i % 8` (least significant bit first).  A little-endian machine word written with
`bitbuf_write_bytes` therefore appears LSB-first as well.
-/
namespace Utcp

abbrev Bits := List Bool

/-- `width` bits of `n`, least significant first. -/
def natToBits (n : Nat) : Nat → Bits
  | 0 => []
  | w+1 => (n % 2 == 1) :: natToBits (n / 2) w

/-- Little-endian value of a bit list. -/
def bitsToNat : Bits → Nat
  | [] => 0
  | b :: bs => (if b then 1 else 0) + 2 * bitsToNat bs

@[simp] theorem natToBits_length (n w : Nat) : (natToBits n w).length = w := by
  induction w generalizing n with
  | zero => rfl
  | succ w ih => simp [natToBits, ih]

theorem bitsToNat_natToBits (n w : Nat) : bitsToNat (natToBits n w) = n % 2 ^ w := by
  induction w generalizing n with
  | zero => simp [natToBits, bitsToNat, Nat.mod_one]
  | succ w ih =>
    simp only [natToBits, bitsToNat, ih]
    rw [Nat.pow_succ, Nat.mul_comm (2 ^ w) 2, Nat.mod_mul]
    by_cases h : n % 2 = 1
    · simp [h]
    · have : n % 2 = 0 := by omega
      simp [this]

theorem bitsToNat_lt (bs : Bits) : bitsToNat bs < 2 ^ bs.length := by
  induction bs with
  | nil => simp [bitsToNat]
  | cons b bs ih =>
    simp only [bitsToNat, List.length_cons, Nat.pow_succ]
    split <;> omega

theorem natToBits_bitsToNat (bs : Bits) : natToBits (bitsToNat bs) bs.length = bs := by
  induction bs with
  | nil => rfl
  | cons b bs ih =>
    simp only [bitsToNat, List.length_cons, natToBits]
    cases b
    · simp only [Bool.false_eq_true, if_false, Nat.zero_add]
      have h1 : 2 * bitsToNat bs % 2 = 0 := by omega
      have h2 : 2 * bitsToNat bs / 2 = bitsToNat bs := by omega
      rw [h1, h2, ih]; rfl
    · simp only [if_true]
      have h1 : (1 + 2 * bitsToNat bs) % 2 = 1 := by omega
      have h2 : (1 + 2 * bitsToNat bs) / 2 = bitsToNat bs := by omega
      rw [h1, h2, ih]; rfl

/-- bytes → bits (LSB first inside each byte) -/
def bytesToBits : List UInt8 → Bits
  | [] => []
  | b :: bs => natToBits b.toNat 8 ++ bytesToBits bs

@[simp] theorem bytesToBits_length (bs : List UInt8) : (bytesToBits bs).length = 8 * bs.length := by
  induction bs with
  | nil => rfl
  | cons b bs ih => simp [bytesToBits, ih]; omega

/-- bits → bytes, zero padding in the last byte (what a zeroed buffer holds after the writes). -/
def bitsToBytes (bs : Bits) : List UInt8 :=
  if h : bs = [] then [] else
    UInt8.ofNat (bitsToNat (bs.take 8)) :: bitsToBytes (bs.drop 8)
termination_by bs.length
decreasing_by
  cases bs with
  | nil => exact absurd rfl h
  | cons b t => simp only [List.length_cons, List.length_drop]; omega

/-- Strip the framing of a received datagram (`bitbuf_read_init`): fails on empty input or a zero
last byte; otherwise the payload is everything below the highest set bit of the last byte. -/
def stripTrailing : Bits → Bits
  | [] => []
  | b :: bs =>
    match stripTrailing bs with
    | [] => if b then [true] else []
    | r => b :: r

/-- bits of a datagram up to and *excluding* the terminating 1 bit; `none` if there is none. -/
def readInit (bytes : List UInt8) : Option Bits :=
  match bytes.getLast? with
  | none => none
  | some last =>
    if last == 0 then none
    else
      let s := stripTrailing (bytesToBits bytes)
      some s.dropLast

/-- 64-bit FNV-1a, used only to print compact fingerprints of byte strings in the driver. -/
def fnv64 (bs : List UInt8) : UInt64 :=
  bs.foldl (fun h b => (h ^^^ b.toUInt64) * 1099511628211) 1469598103934665603

def hexDigit (n : Nat) : Char :=
  if n < 10 then Char.ofNat (48 + n) else Char.ofNat (87 + n)

def hex64 (v : UInt64) : String :=
  String.ofList ((List.range 16).map fun i => hexDigit ((v.toNat >>> (4 * (15 - i))) % 16))

def hexBytes (bs : List UInt8) : String :=
  String.ofList (bs.flatMap fun b => [hexDigit (b.toNat / 16), hexDigit (b.toNat % 16)])

end Utcp
