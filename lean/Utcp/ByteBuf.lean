import Utcp.Basic
/-!
# L-level model of `bit_buffer.c`: the byte array

`Utcp/BitIO.lean` models the primitives on lists of bits (what is written, what is read).  This file models
*how* `bit_buffer.c` does it: a byte array, a cursor, masks, shifts, `|=`, `+=`, the three phases of the
bit-run copier `appBitsCpy`.  Memory is a list of bytes with *partial* access: a read or a write outside the
array makes the whole operation return `none`.  "Stays inside the buffer" is therefore a theorem of the form
"the result is `some _`" for an array of exactly the size the property allows.

The functions follow the C text statement by statement (names as in the source); `Props/C12_Bytes.lean`
proves that they refine the bit-level model, and the driver runs them next to the compiled C code
(unit operation `bbs`, see PROTOCOL.md).
-/
namespace Utcp.BB

abbrev Mem := List Nat

/-- `p[i]` as an rvalue -/
def rd (m : Mem) (i : Nat) : Option Nat := m[i]?
/-- `p[i] = (uint8_t)v` -/
def wr (m : Mem) (i v : Nat) : Option Mem := if i < m.length then some (m.set i (v % 256)) else none
/-- `~x` on a `uint32_t` -/
def not32 (x : Nat) : Nat := 4294967295 ^^^ x

structure Buf where
  mem : Mem
  /-- capacity / logical end, in bits -/
  size : Nat
  /-- cursor, in bits -/
  num : Nat
  deriving Repr, BEq, DecidableEq

/-! ## `appBitsCpy` -/

/-- the `BitCount <= 8` path: at most two bytes read, at most two written -/
def cpySmall (dest : Mem) (destBit : Nat) (src : Mem) (srcBit count : Nat) : Option Mem :=
  let destIndex := destBit / 8
  let srcIndex := srcBit / 8
  let lastDest := (destBit + count - 1) / 8
  let lastSrc := (srcBit + count - 1) / 8
  let shiftSrc := srcBit % 8
  let shiftDest := destBit % 8
  let firstMask := 255 <<< shiftDest
  let lastMask := 254 <<< ((destBit + count - 1) % 8)
  (if srcIndex = lastSrc then (rd src srcIndex).bind fun a => some (a >>> shiftSrc)
   else (rd src srcIndex).bind fun a => (rd src lastSrc).bind fun b => some ((a >>> shiftSrc) ||| (b <<< (8 - shiftSrc)))).bind fun accu =>
  if destIndex = lastDest then
    let multiMask := firstMask &&& not32 lastMask
    (rd dest destIndex).bind fun d =>
    wr dest destIndex ((d &&& not32 multiMask) ||| ((accu <<< shiftDest) &&& multiMask))
  else
    (rd dest destIndex).bind fun d0 =>
    (wr dest destIndex ((d0 &&& not32 firstMask) ||| ((accu <<< shiftDest) &&& firstMask))).bind fun dest1 =>
    (rd dest1 lastDest).bind fun d1 =>
    wr dest1 lastDest ((d1 &&& lastMask) ||| ((accu >>> (8 - shiftDest)) &&& not32 lastMask))

/-- the fast inner loop: `for (; FullLoop > 1; FullLoop--)` -/
def cpyLoop : Nat → Mem → Mem → Nat → Nat → Nat → Nat → Option (Mem × Nat × Nat × Nat)
  | n+2, dest, src, si, di, acc, sc =>
    (rd src si).bind fun b =>
    let acc' := ((b <<< sc) + acc) >>> 8
    (wr dest di acc').bind fun dest' =>
    cpyLoop (n+1) dest' src (si+1) (di+1) acc' sc
  | _, dest, _, si, di, acc, _ => some (dest, si, di, acc)

/-- the main copier (`BitCount >= 9`): lead-in, byte loop, lead-out -/
def cpyMain (dest : Mem) (destBit : Nat) (src : Mem) (srcBit count : Nat) : Option Mem :=
  let destIndex := destBit / 8
  let firstSrcMask := 255 <<< (destBit % 8)
  let lastDest := (destBit + count) / 8
  let lastSrcMask := 255 <<< ((destBit + count) % 8)
  let srcIndex := srcBit / 8
  let lastSrc := (srcBit + count) / 8
  let destLoop := lastDest - destIndex
  let srcLoop := lastSrc - srcIndex
  -- lead-in: one or two source bytes depending on alignment
  (if srcBit % 8 ≤ destBit % 8 then
     let sc := destBit % 8 - srcBit % 8
     (rd src srcIndex).bind fun a => some (max destLoop srcLoop, a <<< sc, srcIndex, sc + 8)
   else
     let sc := destBit % 8 + 8 - srcBit % 8
     (rd src srcIndex).bind fun a => (rd src (srcIndex + 1)).bind fun b =>
       some (max destLoop (srcLoop - 1), ((b <<< (sc + 8)) + (a <<< sc)) >>> 8, srcIndex + 1, sc + 8)).bind
  fun (fullLoop, bitAccu, srcIndex, shiftCount) =>
  (rd dest destIndex).bind fun d0 =>
  (wr dest destIndex ((bitAccu &&& firstSrcMask) ||| (d0 &&& not32 firstSrcMask))).bind fun dest1 =>
  (cpyLoop fullLoop dest1 src (srcIndex + 1) (destIndex + 1) bitAccu shiftCount).bind
  fun (dest2, si, di, acc) =>
  if lastSrcMask ≠ 255 then
    (if (srcBit + count - 1) / 8 = si then (rd src si).bind fun b => some (((b <<< shiftCount) + acc) >>> 8)
     else some (acc >>> 8)).bind fun acc2 =>
    (rd dest2 di).bind fun dl =>
    wr dest2 di ((dl &&& lastSrcMask) ||| (acc2 &&& not32 lastSrcMask))
  else some dest2

/-- `appBitsCpy(Dest, DestBit, Src, SrcBit, BitCount)` -/
def appBitsCpy (dest : Mem) (destBit : Nat) (src : Mem) (srcBit count : Nat) : Option Mem :=
  if count = 0 then some dest
  else if count ≤ 8 then cpySmall dest destBit src srcBit count
  else cpyMain dest destBit src srcBit count

/-! ## writers -/

def allowOpt (b : Buf) (n : Nat) : Bool := b.num + n ≤ b.size

/-- `buffer[num >> 3] |= GShift[num & 7]` -/
def orBit (m : Mem) (pos : Nat) : Option Mem :=
  (rd m (pos / 8)).bind fun x => wr m (pos / 8) (x ||| (1 <<< (pos % 8)))
/-- `buffer[num >> 3] += GShift[num & 7]` -/
def addBit (m : Mem) (pos : Nat) : Option Mem :=
  (rd m (pos / 8)).bind fun x => wr m (pos / 8) (x + (1 <<< (pos % 8)))

/-- `bitbuf_write_bit` -/
def writeBit (b : Buf) (v : Nat) : Option (Bool × Buf) :=
  if !allowOpt b 1 then some (false, b)
  else if v % 256 ≠ 0 then (orBit b.mem b.num).bind fun m => some (true, { b with mem := m, num := b.num + 1 })
  else some (true, { b with num := b.num + 1 })

/-- `bitbuf_write_bits` -/
def writeBits (b : Buf) (data : Mem) (n : Nat) : Option (Bool × Buf) :=
  if !allowOpt b n then some (false, b)
  else if n = 1 then
    (rd data 0).bind fun s =>
    if s &&& 1 ≠ 0 then (orBit b.mem b.num).bind fun m => some (true, { b with mem := m, num := b.num + 1 })
    else some (true, { b with num := b.num + 1 })
  else (appBitsCpy b.mem b.num data 0 n).bind fun m => some (true, { b with mem := m, num := b.num + n })

/-- `bitbuf_write_bytes` -/
def writeBytes (b : Buf) (data : Mem) (size : Nat) : Option (Bool × Buf) :=
  if !allowOpt b (size * 8) then some (false, b)
  else (appBitsCpy b.mem b.num data 0 (size * 8)).bind fun m => some (true, { b with mem := m, num := b.num + size * 8 })

/-- `CeilLogTwo`: the bit length of `(uint32_t)(x - 1)` (the 256-entry table holds the bit length of a byte), i.e. the smallest `k` with `x ≤ 2^k`; 32 for 0 -/
def ceilLogTwo (x : Nat) : Nat := if x = 0 then 32 else if x = 1 then 0 else Nat.log2 (x - 1) + 1

/-- the loop of `bitbuf_write_int` / `bitbuf_write_int_wrapped`: `for (Mask = 1; NewValue + Mask < max && Mask; Mask *= 2, pos++)` -/
def wIntLoop : Nat → Mem → Nat → Nat → Nat → Nat → Nat → Option (Mem × Nat)
  | 0, m, _, _, _, _, pos => some (m, pos)
  | fuel+1, m, v, mx, mask, nv, pos =>
    if nv + mask < mx ∧ mask < 4294967296 then
      if v &&& mask ≠ 0 then (addBit m pos).bind fun m' => wIntLoop fuel m' v mx (mask * 2) (nv + mask) (pos + 1)
      else wIntLoop fuel m v mx (mask * 2) nv (pos + 1)
    else some (m, pos)

/-- `bitbuf_write_int` (`value_max >= 2` is asserted by the C code) -/
def writeInt (b : Buf) (v mx : Nat) : Option (Bool × Buf) :=
  if v ≥ mx then some (false, b)
  else if !allowOpt b (ceilLogTwo mx) then some (false, b)
  else (wIntLoop 33 b.mem v mx 1 0 b.num).bind fun (m, pos) => some (true, { b with mem := m, num := pos })

/-- `bitbuf_write_int_wrapped` -/
def writeIntWrapped (b : Buf) (v mx : Nat) : Option (Bool × Buf) :=
  if !allowOpt b (ceilLogTwo mx) then some (false, b)
  else (wIntLoop 33 b.mem v mx 1 0 b.num).bind fun (m, pos) => some (true, { b with mem := m, num := pos })

/-- the first loop of `bitbuf_write_int_packed`: the value cut into 7-bit groups with a continuation bit -/
def packedWords : Nat → Nat → List Nat
  | 0, _ => []
  | fuel+1, v =>
    let next := if v / 128 ≠ 0 then 1 else 0
    ((v % 128) * 2 + next) :: (if v / 128 ≠ 0 then packedWords fuel (v / 128) else [])

/-- the second loop of `bitbuf_write_int_packed`: each byte straddles two destination bytes unless the cursor is byte aligned -/
def packedStore : List Nat → Mem → Nat → Nat → Option Mem
  | [], m, _, _ => some m
  | w :: ws, m, di, used =>
    let mask0 := (1 <<< used) - 1
    let mask1 := 255 ^^^ mask0
    (rd m di).bind fun x0 =>
    (wr m di ((x0 &&& mask0) ||| ((w <<< used) % 256))).bind fun m1 =>
    if used ≠ 0 then
      (rd m1 (di + 1)).bind fun x1 =>
      (wr m1 (di + 1) ((x1 &&& mask1) ||| ((w >>> (8 - used)) % 256))).bind fun m2 =>
      packedStore ws m2 (di + 1) used
    else packedStore ws m1 (di + 1) used

/-- `bitbuf_write_int_packed` -/
def writeIntPacked (b : Buf) (v : Nat) : Option (Bool × Buf) :=
  let ws := packedWords 5 (v % 4294967296)
  if !allowOpt b (ws.length * 8) then some (false, b)
  else (packedStore ws b.mem (b.num / 8) (b.num % 8)).bind fun m => some (true, { b with mem := m, num := b.num + ws.length * 8 })

/-- the four bytes of a `uint32_t` in memory (little endian host) -/
def u32Bytes (v : Nat) : Mem := [v % 256, v / 256 % 256, v / 65536 % 256, v / 16777216 % 256]

/-- `bitbuf_write_int_byte_order` -/
def writeU32 (b : Buf) (v : Nat) : Option (Bool × Buf) := writeBytes b (u32Bytes v) 4

/-- `bitbuf_write_end` -/
def writeEnd (b : Buf) : Option (Bool × Buf) := writeBit b 1

/-! ## readers -/

/-- the `while (!(LastByte & 0x80)) { LastByte *= 2; CountBits--; }` loop of `bitbuf_read_init` -/
def initLoop : Nat → Nat → Nat → Nat
  | 0, _, cnt => cnt
  | fuel+1, last, cnt => if last &&& 128 = 0 then initLoop fuel (last * 2 % 256) (cnt - 1) else cnt

/-- `bitbuf_read_init(buff, data, len)`; `data` is the array of exactly `len` bytes -/
def readInit (data : Mem) : Option (Bool × Buf) :=
  if data.length = 0 then some (false, ⟨data, 0, 0⟩)
  else (rd data (data.length - 1)).bind fun last =>
    if last = 0 then some (false, ⟨data, 0, 0⟩)
    else some (true, ⟨data, initLoop 8 last (data.length * 8 - 1), 0⟩)

/-- `buffer[num >> 3] & Shift(num & 7)` -/
def testAt (m : Mem) (pos : Nat) : Option Bool :=
  (rd m (pos / 8)).bind fun x => some (x &&& (1 <<< (pos % 8)) ≠ 0)

/-- `bitbuf_read_bit` -/
def readBit (b : Buf) : Option (Bool × Nat × Buf) :=
  if !allowOpt b 1 then some (false, 0, b)
  else (testAt b.mem b.num).bind fun t => some (true, (if t then 1 else 0), { b with num := b.num + 1 })

/-- `bitbuf_read_bits(buff, buffer, bits_size)`; `out` is the caller's array.  Returns it as left by the call. -/
def readBits (b : Buf) (out : Mem) (n : Nat) : Option (Bool × Mem × Buf) :=
  if !allowOpt b n then some (false, out, b)
  else if n = 1 then
    (wr out 0 0).bind fun o0 =>
    (testAt b.mem b.num).bind fun t =>
    if t then (rd o0 0).bind fun x => (wr o0 0 (x ||| 1)).bind fun o1 => some (true, o1, { b with num := b.num + 1 })
    else some (true, o0, { b with num := b.num + 1 })
  else if n ≠ 0 then
    (wr out ((n + 7) / 8 - 1) 0).bind fun o0 =>
    (appBitsCpy o0 0 b.mem b.num n).bind fun o1 => some (true, o1, { b with num := b.num + n })
  else some (true, out, b)

/-- `bitbuf_read_bytes` -/
def readBytes (b : Buf) (out : Mem) (size : Nat) : Option (Bool × Mem × Buf) := readBits b out (size * 8)

/-- the loop of `bitbuf_read_int`; the cursor is only written back on success -/
def rIntLoop : Nat → Mem → Nat → Nat → Nat → Nat → Nat → Option (Option (Nat × Nat))
  | 0, _, _, _, _, value, pos => some (some (value, pos))
  | fuel+1, m, size, mx, mask, value, pos =>
    if value + mask < mx ∧ mask < 4294967296 then
      if pos ≥ size then some none
      else (testAt m pos).bind fun t => rIntLoop fuel m size mx (mask * 2) (if t then value ||| mask else value) (pos + 1)
    else some (some (value, pos))

/-- `bitbuf_read_int` -/
def readInt (b : Buf) (mx : Nat) : Option (Bool × Nat × Buf) :=
  (rIntLoop 33 b.mem b.size mx 1 0 b.num).bind fun r =>
  match r with
  | none => some (false, 0, b)
  | some (v, pos) => some (true, v, { b with num := pos })

/-- the loop of `bitbuf_read_int_packed`; `num` advances by 8 per byte group, also before a later failure.
`Src[NextSrcIndex]` is read even when it contributes no bit (mask 0) only if `NextSrcIndex` is 1, i.e. the cursor is not byte aligned. -/
def rPackedLoop : Nat → Mem → Nat → Nat → Nat → Nat → Nat → Nat → Option (Bool × Nat × Nat)
  | 0, _, _, num, _, _, _, value => some (true, value, num)
  | fuel+1, m, size, num, si, used, shift, value =>
    if num + 8 > size then some (false, value, num)
    else
      let left := 8 - used
      let mask0 := ((1 <<< left) - 1) % 256
      let mask1 := ((1 <<< used) - 1) % 256
      (rd m si).bind fun s0 =>
      (if used ≠ 0 then rd m (si + 1) else rd m si).bind fun s1 =>
      let byte := (((s0 >>> used) &&& mask0) ||| ((s1 &&& mask1) <<< (left % 8))) % 256
      let value' := (((byte >>> 1) <<< shift) ||| value) % 4294967296
      if byte &&& 1 = 0 then some (true, value', num + 8)
      else rPackedLoop fuel m size (num + 8) (si + 1) used (shift + 7) value'

/-- `bitbuf_read_int_packed` -/
def readIntPacked (b : Buf) : Option (Bool × Nat × Buf) :=
  (rPackedLoop 5 b.mem b.size b.num (b.num / 8) (b.num % 8) 0 0).bind fun (ok, v, num) =>
  some (ok, (if ok then v else 0), { b with num := num })

/-- `bitbuf_read_int_byte_order` -/
def readU32 (b : Buf) : Option (Bool × Nat × Buf) :=
  (readBits b [0, 0, 0, 0] 32).bind fun (ok, o, b') =>
  some (ok, (if ok then o.getD 0 0 + 256 * o.getD 1 0 + 65536 * o.getD 2 0 + 16777216 * o.getD 3 0 else 0), b')

end Utcp.BB
