import Utcp.World
open Utcp

partial def loop (h : IO.FS.Stream) (out : IO.FS.Stream) (w : World) : IO World := do
  let line ← h.getLine
  if line.isEmpty then return w
  let w := w.step (line.trimAscii.toString)
  for s in w.out do
    out.putStrLn s
  loop h out { w with out := #[] }

def main : IO Unit := do
  let stdin ← IO.getStdin
  let stdout ← IO.getStdout
  let w ← loop stdin stdout {}
  let w := w.destroyAll
  let w := w.say s!"live {w.live}"
  for s in w.out do
    stdout.putStrLn s
  stdout.flush
